#!/bin/sh
# Offline build of the driver and the instrumenter (go1.26.8, modules from the local cache only).
set -e
cd "$(dirname "$0")"
export GOFLAGS=-mod=mod GOPROXY=off GOSUMDB=off GOTOOLCHAIN=local
mkdir -p bin evidence replays
cp /repo/go.sum sim/go.sum.repo 2>/dev/null || true
cd sim
go1.26.8 build -o ../bin/instr ./cmd/instr
go1.26.8 build -o ../bin/vcheck ./cmd/vcheck
# warm the build cache for the harness dependencies (plain and race); failures here are not fatal for setup
go1.26.8 build ./... >/dev/null 2>&1 || true
echo "setup ok"
