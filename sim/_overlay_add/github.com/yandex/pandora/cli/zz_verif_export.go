package cli

import (
	"context"

	"github.com/yandex/pandora/core/engine"
	"go.uber.org/zap"
)

// Export shims for the verification harness (build overlay only): the process
// termination logic of ReadConfigAndRunEngine with a harness-supplied engine and logger.
func VerifRunAndAwaitTermination(pandora *engine.Engine, log *zap.Logger) {
	ctx, cancel := context.WithCancel(context.Background())
	defer cancel()

	errs := make(chan error)
	go runEngine(ctx, pandora, errs)

	// waiting for signal or error message from engine
	awaitPandoraTermination(pandora, cancel, errs, log)
	log.Info("Engine run successfully finished")
}
