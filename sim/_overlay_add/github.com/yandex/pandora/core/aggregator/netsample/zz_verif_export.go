package netsample

import "time"

// Export shims for the verification harness (added through the build overlay
// only; nothing of this exists in the repository).

func VerifNetCode(s *Sample) int         { return s.get(keyErrno) }
func VerifTimestamp(s *Sample) time.Time { return s.timeStamp }
func VerifFields(s *Sample) []int        { return append([]int(nil), s.fields[:]...) }

// VerifRelease hands a handled sample back to the sample pool, as the phout aggregator does.
func VerifRelease(s *Sample) { releaseSample(s) }
