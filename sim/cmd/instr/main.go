// instr rewrites the non-test sources of the pandora module (read from the
// repository's current working tree) and of the harness packages that ask for
// it, so that every synchronisation operation goes through the simulator's
// shims. It never touches the repository: the rewritten files are written to a
// scratch directory together with an overlay.json for `go build -overlay`.
//
// The rewrite is a set of non-overlapping textual edits computed from the AST
// and go/types information (export data from `go list -export`), so comments
// and line numbers of the original files are preserved.
package main

import (
	"bytes"
	"encoding/json"
	"flag"
	"fmt"
	"go/ast"
	"go/importer"
	"go/parser"
	"go/token"
	"go/types"
	"io"
	"os"
	"os/exec"
	"path/filepath"
	"sort"
	"strings"
)

type listPkg struct {
	ImportPath string
	Dir        string
	GoFiles    []string
	Export     string
	ImportMap  map[string]string
	Module     *struct{ Path, Dir, GoVersion string }
	Standard   bool
}

type edit struct {
	start, end int
	text       string
	order      int
	closing    bool // an insert that closes a construct ending at this offset
}

// substitution table: original package path -> name -> (new package path, alias, new name)
type target struct{ pkg, alias, name string }

var subst = map[string]map[string]target{
	"sync": {
		"Mutex": {"verifsim/simsync", "zsimsync", "Mutex"}, "RWMutex": {"verifsim/simsync", "zsimsync", "RWMutex"},
		"Once": {"verifsim/simsync", "zsimsync", "Once"}, "WaitGroup": {"verifsim/simsync", "zsimsync", "WaitGroup"},
		"Map": {"verifsim/simsync", "zsimsync", "Map"}, "Pool": {"verifsim/simsync", "zsimsync", "Pool"},
	},
	"go.uber.org/atomic": {
		"Int64": {"verifsim/simatomic", "zsimatomic", "Int64"}, "Uint64": {"verifsim/simatomic", "zsimatomic", "Uint64"},
		"Bool": {"verifsim/simatomic", "zsimatomic", "Bool"}, "Time": {"verifsim/simatomic", "zsimatomic", "Time"},
		"NewInt64": {"verifsim/simatomic", "zsimatomic", "NewInt64"}, "NewUint64": {"verifsim/simatomic", "zsimatomic", "NewUint64"},
		"NewBool": {"verifsim/simatomic", "zsimatomic", "NewBool"}, "NewTime": {"verifsim/simatomic", "zsimatomic", "NewTime"},
	},
	"sync/atomic": {},
	"time": {
		"Sleep": {"verifsim/simrt", "zsimrt", "SleepD"},
	},
	"context": {
		"WithCancel": {"verifsim/simctx", "zsimctx", "WithCancel"}, "WithTimeout": {"verifsim/simctx", "zsimctx", "WithTimeout"},
		"WithDeadline": {"verifsim/simctx", "zsimctx", "WithDeadline"},
	},
	"net": {
		"Dialer": {"verifsim/simnet", "zsimnet", "Dialer"},
	},
	"google.golang.org/grpc": {
		"DialContext": {"verifsim/simgrpc", "zsimgrpc", "DialContext"},
	},
	"github.com/jhump/protoreflect/grpcreflect": {
		"NewClientAuto": {"verifsim/simgrpc", "zsimgrpc", "NewReflectClientAuto"},
	},
	"os/signal": {
		"Notify": {"verifsim/simsig", "zsimsig", "Notify"},
		"Stop":   {"verifsim/simsig", "zsimsig", "Stop"},
	},
	"math/rand": {
		"NewSource": {"verifsim/simrand", "zsimrand", "NewSource"},
		"Int":       {"verifsim/simrand", "zsimrand", "Int"}, "Intn": {"verifsim/simrand", "zsimrand", "Intn"},
		"Int63": {"verifsim/simrand", "zsimrand", "Int63"}, "Int63n": {"verifsim/simrand", "zsimrand", "Int63n"},
		"Int31": {"verifsim/simrand", "zsimrand", "Int31"}, "Int31n": {"verifsim/simrand", "zsimrand", "Int31n"},
		"Float64": {"verifsim/simrand", "zsimrand", "Float64"}, "Uint32": {"verifsim/simrand", "zsimrand", "Uint32"},
		"Uint64": {"verifsim/simrand", "zsimrand", "Uint64"}, "Perm": {"verifsim/simrand", "zsimrand", "Perm"},
		"Shuffle": {"verifsim/simrand", "zsimrand", "Shuffle"}, "Read": {"verifsim/simrand", "zsimrand", "Read"},
	},
}

// a dummy use keeping the original import alive after all its uses were substituted
var dummyUse = map[string]string{
	"sync": "var _ %s.Locker", "go.uber.org/atomic": "var _ %s.Int64", "sync/atomic": "var _ %s.Value",
	"time": "var _ %s.Duration", "context": "var _ %s.Context", "net": "var _ %s.Conn",
	"google.golang.org/grpc": "var _ %s.DialOption", "os/signal": "var _ = %s.Ignore", "math/rand": "var _ %s.Source",
}

func init() {
	for _, n := range []string{"Int64", "Uint64", "Int32", "Uint32", "Bool", "Pointer",
		"AddInt64", "AddUint64", "AddInt32", "AddUint32", "LoadInt64", "LoadUint64", "LoadInt32", "LoadUint32",
		"StoreInt64", "StoreUint64", "StoreInt32", "StoreUint32",
		"CompareAndSwapInt64", "CompareAndSwapUint64", "CompareAndSwapInt32", "CompareAndSwapUint32"} {
		subst["sync/atomic"][n] = target{"verifsim/simsatomic", "zsimsatomic", n}
	}
}

var addedFiles = map[string]string{}

var (
	siteNames = map[int]string{}
	nextSite  = 1
	warnings  []string
)

func newSite(fset *token.FileSet, pos token.Pos, kind, relroot string) int {
	p := fset.Position(pos)
	fn := p.Filename
	if r, err := filepath.Rel(relroot, fn); err == nil {
		fn = r
	}
	id := nextSite
	nextSite++
	siteNames[id] = fmt.Sprintf("%s:%d:%s", fn, p.Line, kind)
	return id
}

func main() {
	var (
		simDir  = flag.String("sim", "/verif/sim", "harness module directory")
		out     = flag.String("out", "", "scratch output directory")
		root    = flag.String("root", "verifsim/props", "root package whose dependency closure is instrumented")
		modPath = flag.String("mod", "github.com/yandex/pandora", "module to instrument")
		own     = flag.String("own", "verifsim/props,verifsim/stubs", "harness packages to instrument as well")
		goBin   = flag.String("go", "go1.26.8", "go command")
		race    = flag.Bool("race", false, "list with -race")
		addDir  = flag.String("add", "", "directory with files to add: <add>/<import path>/<file>.go")
		modfile = flag.String("modfile", "", "alternative go.mod (simulate another tree)")
	)
	flag.Parse()
	if *out == "" {
		fatal("need -out")
	}
	ownSet := map[string]bool{}
	for _, p := range strings.Split(*own, ",") {
		if p != "" {
			ownSet[p] = true
		}
	}
	// added files (export shims) must be visible to the type-checking build as well:
	// a first overlay with only the additions
	addOverlay := map[string]string{}
	if *addDir != "" {
		mcmd := exec.Command(*goBin, append([]string{"list", "-m", "-f", "{{.Dir}}"}, modfileArgs(*modfile, *modPath)...)...)
		mcmd.Dir = *simDir
		mcmd.Stderr = os.Stderr
		mo, err := mcmd.Output()
		if err != nil {
			fatal("go list -m failed: %v", err)
		}
		modDir := strings.TrimSpace(string(mo))
		filepath.Walk(*addDir, func(path string, info os.FileInfo, err error) error {
			if err != nil || info.IsDir() || !strings.HasSuffix(path, ".go") {
				return nil
			}
			rel, _ := filepath.Rel(*addDir, filepath.Dir(path))
			rel = filepath.ToSlash(rel)
			if rel == *modPath || strings.HasPrefix(rel, *modPath+"/") {
				addOverlay[filepath.Join(modDir, strings.TrimPrefix(rel, *modPath), filepath.Base(path))] = path
			}
			return nil
		})
	}
	addedFiles = addOverlay
	must(os.MkdirAll(*out, 0o755))
	aob, _ := json.Marshal(map[string]any{"Replace": addOverlay})
	addJSON := filepath.Join(*out, "overlay_add.json")
	must(os.WriteFile(addJSON, aob, 0o644))
	args := []string{"list", "-overlay", addJSON, "-export", "-deps", "-json=ImportPath,Dir,GoFiles,Export,ImportMap,Module,Standard"}
	if *race {
		args = append(args, "-race")
	}
	if *modfile != "" {
		args = append(args, "-modfile", *modfile)
	}
	args = append(args, *root)
	cmd := exec.Command(*goBin, args...)
	cmd.Dir = *simDir
	cmd.Stderr = os.Stderr
	outb, err := cmd.Output()
	if err != nil {
		fatal("go list failed: %v", err)
	}
	dec := json.NewDecoder(bytes.NewReader(outb))
	exports := map[string]string{}
	var pkgs []*listPkg
	for {
		var p listPkg
		if err := dec.Decode(&p); err == io.EOF {
			break
		} else if err != nil {
			fatal("decode go list: %v", err)
		}
		pp := p
		exports[p.ImportPath] = p.Export
		pkgs = append(pkgs, &pp)
	}
	sort.Slice(pkgs, func(i, j int) bool { return pkgs[i].ImportPath < pkgs[j].ImportPath })

	overlay := map[string]string{}
	nfiles, nedits := 0, 0
	for _, p := range pkgs {
		isMod := p.Module != nil && p.Module.Path == *modPath
		if !isMod && !ownSet[p.ImportPath] {
			continue
		}
		relroot := *simDir
		gover := "go1.26"
		if isMod {
			relroot = p.Module.Dir
			if p.Module.GoVersion != "" {
				gover = "go" + p.Module.GoVersion
			}
		}
		n, e := instrumentPkg(p, exports, gover, relroot, *out, overlay)
		nfiles += n
		nedits += e
	}
	for k, v := range addOverlay {
		if _, rewritten := overlay[k]; !rewritten {
			overlay[k] = v
		}
	}
	ob, _ := json.MarshalIndent(map[string]any{"Replace": overlay}, "", " ")
	must(os.WriteFile(filepath.Join(*out, "overlay.json"), ob, 0o644))
	sn := map[string]string{}
	for k, v := range siteNames {
		sn[fmt.Sprint(k)] = v
	}
	sb, _ := json.Marshal(sn)
	must(os.WriteFile(filepath.Join(*out, "sites.json"), sb, 0o644))
	for _, w := range warnings {
		fmt.Fprintln(os.Stderr, "instr: warning:", w)
	}
	fmt.Fprintf(os.Stderr, "instr: %d files rewritten, %d edits, %d sites\n", nfiles, nedits, len(siteNames))
}

func modfileArgs(modfile, mod string) []string {
	if modfile != "" {
		return []string{"-modfile", modfile, mod}
	}
	return []string{mod}
}

func fatal(f string, a ...any) {
	fmt.Fprintf(os.Stderr, "instr: "+f+"\n", a...)
	os.Exit(2)
}

func must(err error) {
	if err != nil {
		fatal("%v", err)
	}
}

type rewriter struct {
	fset    *token.FileSet
	info    *types.Info
	src     []byte
	file    *ast.File
	edits   []edit
	relroot string
	imports map[string]string // alias -> path to add
	dummies map[string]string // original import path needing a dummy use -> local name
	skip    map[ast.Node]bool
	lines   []string
	labels  map[ast.Stmt]*ast.LabeledStmt
}

func instrumentPkg(p *listPkg, exports map[string]string, gover, relroot, out string, overlay map[string]string) (int, int) {
	fset := token.NewFileSet()
	var files []*ast.File
	var srcs [][]byte
	var names []string
	for _, f := range p.GoFiles {
		path := filepath.Join(p.Dir, f)
		rp := path
		if m, ok := addedFiles[path]; ok {
			rp = m
		}
		src, err := os.ReadFile(rp)
		must(err)
		af, err := parser.ParseFile(fset, path, src, parser.ParseComments|parser.SkipObjectResolution)
		if err != nil {
			fatal("parse %s: %v", path, err)
		}
		files = append(files, af)
		srcs = append(srcs, src)
		names = append(names, path)
	}
	lookup := func(path string) (io.ReadCloser, error) {
		if m, ok := p.ImportMap[path]; ok {
			path = m
		}
		e := exports[path]
		if e == "" {
			return nil, fmt.Errorf("no export data for %q", path)
		}
		return os.Open(e)
	}
	info := &types.Info{
		Types: map[ast.Expr]types.TypeAndValue{},
		Uses:  map[*ast.Ident]types.Object{},
		Defs:  map[*ast.Ident]types.Object{},
	}
	conf := types.Config{
		Importer:  importer.ForCompiler(fset, "gc", lookup),
		GoVersion: gover,
		Error: func(err error) {
			fatal("type-check %s: %v", p.ImportPath, err)
		},
	}
	if _, err := conf.Check(p.ImportPath, fset, files, info); err != nil {
		fatal("type-check %s: %v", p.ImportPath, err)
	}
	nf, ne := 0, 0
	for i, af := range files {
		if untouched(names[i]) {
			continue
		}
		rw := &rewriter{fset: fset, info: info, src: srcs[i], file: af, relroot: relroot,
			imports: map[string]string{}, dummies: map[string]string{}, skip: map[ast.Node]bool{},
			lines: strings.Split(string(srcs[i]), "\n"), labels: map[ast.Stmt]*ast.LabeledStmt{}}
		rw.run()
		if len(rw.edits) == 0 {
			continue
		}
		res := rw.apply()
		rel, _ := filepath.Rel(relroot, names[i])
		dst := filepath.Join(out, "src", p.ImportPath, filepath.Base(names[i]))
		_ = rel
		must(os.MkdirAll(filepath.Dir(dst), 0o755))
		must(os.WriteFile(dst, res, 0o644))
		// the result must still parse
		if _, err := parser.ParseFile(token.NewFileSet(), dst, res, 0); err != nil {
			fatal("rewritten %s does not parse: %v", names[i], err)
		}
		overlay[names[i]] = dst
		nf++
		ne += len(rw.edits)
	}
	return nf, ne
}

// untouchedFiles are left as they are: code that un-instrumented libraries call back while holding locks of
// their own must not contain scheduling points (a task parked there would keep that real lock, and the next task
// to want it would block outside the simulator's control).
//   - components/guns/http/trace.go: httptrace hooks; x/net/http2 calls GetConn with its connection pool locked.
var untouchedFiles = []string{"components/guns/http/trace.go"}

func untouched(name string) bool {
	for _, u := range untouchedFiles {
		if strings.HasSuffix(filepath.ToSlash(name), u) {
			return true
		}
	}
	return false
}

func (rw *rewriter) off(p token.Pos) int { return rw.fset.Position(p).Offset }

func (rw *rewriter) text(n ast.Node) string { return string(rw.src[rw.off(n.Pos()):rw.off(n.End())]) }

func (rw *rewriter) nosim(p token.Pos) bool {
	l := rw.fset.Position(p).Line
	return l-1 < len(rw.lines) && strings.Contains(rw.lines[l-1], "nosim")
}

func (rw *rewriter) add(start, end token.Pos, text string) {
	rw.edits = append(rw.edits, edit{rw.off(start), rw.off(end), text, len(rw.edits), false})
}

func (rw *rewriter) addClose(at token.Pos, text string) {
	rw.edits = append(rw.edits, edit{rw.off(at), rw.off(at), text, len(rw.edits), true})
}

func (rw *rewriter) addOff(start, end int, text string) {
	rw.edits = append(rw.edits, edit{start, end, text, len(rw.edits), false})
}

func (rw *rewriter) site(pos token.Pos, kind string) int {
	rw.imports["zsimrt"] = "verifsim/simrt"
	return newSite(rw.fset, pos, kind, rw.relroot)
}

func (rw *rewriter) isChan(e ast.Expr) bool {
	tv, ok := rw.info.Types[e]
	if !ok || tv.Type == nil {
		return false
	}
	_, ok = tv.Type.Underlying().(*types.Chan)
	if ok {
		return true
	}
	// type parameters with a channel core type are not used by pandora
	return false
}

func (rw *rewriter) run() {
	// first pass: label map
	ast.Inspect(rw.file, func(n ast.Node) bool {
		if l, ok := n.(*ast.LabeledStmt); ok {
			rw.labels[l.Stmt] = l
		}
		return true
	})
	rw.walk(rw.file)
	if len(rw.edits) == 0 {
		return
	}
	// imports right after the package clause, on the same line
	var imp strings.Builder
	aliases := make([]string, 0, len(rw.imports))
	for a := range rw.imports {
		aliases = append(aliases, a)
	}
	sort.Strings(aliases)
	for _, a := range aliases {
		fmt.Fprintf(&imp, "; import %s %q", a, rw.imports[a])
	}
	e := rw.off(rw.file.Name.End())
	rw.addOff(e, e, imp.String())
	// dummy uses at the end of the file
	var tail strings.Builder
	paths := make([]string, 0, len(rw.dummies))
	for p := range rw.dummies {
		paths = append(paths, p)
	}
	sort.Strings(paths)
	for _, p := range paths {
		local := rw.dummies[p]
		if local == "" || dummyUse[p] == "" {
			continue
		}
		tail.WriteString("\n" + fmt.Sprintf(dummyUse[p], local))
	}
	if tail.Len() > 0 {
		tail.WriteString("\n")
		rw.addOff(len(rw.src), len(rw.src), tail.String())
	}
}

func (rw *rewriter) walk(root ast.Node) {
	var stack []ast.Node
	ast.Inspect(root, func(n ast.Node) bool {
		if n == nil {
			stack = stack[:len(stack)-1]
			return true
		}
		var parent ast.Node
		if len(stack) > 0 {
			parent = stack[len(stack)-1]
		}
		stack = append(stack, n)
		if rw.skip[n] {
			return true
		}
		switch x := n.(type) {
		case *ast.GoStmt:
			if !rw.nosim(x.Pos()) {
				rw.goStmt(x)
			}
		case *ast.SendStmt:
			if !rw.nosim(x.Pos()) {
				s := rw.site(x.Pos(), "send")
				rw.add(x.Chan.Pos(), x.Chan.Pos(), fmt.Sprintf("zsimrt.Sender(%d, ", s))
				rw.add(x.Arrow, x.Arrow+2, ")(")
				rw.addClose(x.Value.End(), ")")
			}
		case *ast.UnaryExpr:
			if x.Op == token.ARROW && !rw.nosim(x.Pos()) {
				fn := "Recv"
				switch p := parent.(type) {
				case *ast.AssignStmt:
					if len(p.Lhs) == 2 && len(p.Rhs) == 1 && p.Rhs[0] == x {
						fn = "Recv2"
					}
				case *ast.ValueSpec:
					if len(p.Names) == 2 && len(p.Values) == 1 && p.Values[0] == x {
						fn = "Recv2"
					}
				}
				s := rw.site(x.Pos(), "recv")
				rw.add(x.OpPos, x.OpPos+2, fmt.Sprintf("zsimrt.%s(%d, ", fn, s))
				rw.addClose(x.End(), ")")
			}
		case *ast.SelectStmt:
			if !rw.nosim(x.Pos()) {
				rw.selectStmt(x)
			}
		case *ast.RangeStmt:
			if rw.isChan(x.X) && !rw.nosim(x.Pos()) {
				rw.rangeChan(x)
			} else if !rw.nosim(x.Pos()) && rw.rangeMap(x) {
				// (rewritten: sorted keys, Tick included)
			} else {
				rw.tick(x.Body)
			}
		case *ast.ForStmt:
			rw.tick(x.Body)
		case *ast.CallExpr:
			if id, ok := x.Fun.(*ast.Ident); ok && id.Name == "close" && len(x.Args) == 1 && !rw.nosim(x.Pos()) {
				if _, isB := rw.info.Uses[id].(*types.Builtin); isB {
					s := rw.site(x.Pos(), "close")
					rw.add(id.Pos(), x.Lparen+1, fmt.Sprintf("zsimrt.Close(%d, ", s))
				}
			}
		case *ast.SelectorExpr:
			if id, ok := x.X.(*ast.Ident); ok && !rw.nosim(x.Pos()) {
				if pn, ok := rw.info.Uses[id].(*types.PkgName); ok {
					path := pn.Imported().Path()
					if m, ok := subst[path]; ok {
						if t, ok := m[x.Sel.Name]; ok {
							rw.add(id.Pos(), id.End(), t.alias)
							if t.name != x.Sel.Name {
								rw.add(x.Sel.Pos(), x.Sel.End(), t.name)
							}
							rw.imports[t.alias] = t.pkg
							rw.dummies[path] = id.Name
						}
					}
				}
			}
		}
		return true
	})
}

func (rw *rewriter) tick(body *ast.BlockStmt) {
	if body == nil || rw.nosim(body.Lbrace) {
		return
	}
	rw.imports["zsimrt"] = "verifsim/simrt"
	rw.add(body.Lbrace+1, body.Lbrace+1, " zsimrt.Tick();")
}

func (rw *rewriter) goStmt(x *ast.GoStmt) {
	s := rw.site(x.Pos(), "go")
	call := x.Call
	if fl, ok := call.Fun.(*ast.FuncLit); ok && len(call.Args) == 0 {
		rw.add(x.Go, fl.Pos(), fmt.Sprintf("zsimrt.Go(%d, ", s))
		rw.add(call.Lparen, call.Rparen+1, ")")
		return
	}
	// general form: arguments are evaluated inside the new task; warn if any
	// argument is not a plain identifier / selector / literal
	for _, a := range call.Args {
		switch a.(type) {
		case *ast.Ident, *ast.SelectorExpr, *ast.BasicLit:
		default:
			warnings = append(warnings, fmt.Sprintf("%s: go statement argument evaluated late", rw.fset.Position(x.Pos())))
		}
	}
	rw.add(x.Go, call.Pos(), fmt.Sprintf("zsimrt.Go(%d, func() { ", s))
	rw.addClose(call.End(), " })")
}

func (rw *rewriter) containsRewritable(n ast.Node) bool {
	found := false
	ast.Inspect(n, func(m ast.Node) bool {
		switch y := m.(type) {
		case *ast.UnaryExpr:
			if y.Op == token.ARROW {
				found = true
			}
		case *ast.FuncLit:
			found = true
		case *ast.SelectorExpr:
			if id, ok := y.X.(*ast.Ident); ok {
				if pn, ok := rw.info.Uses[id].(*types.PkgName); ok {
					if m, ok := subst[pn.Imported().Path()]; ok {
						if _, ok := m[y.Sel.Name]; ok {
							found = true
						}
					}
				}
			}
		}
		return !found
	})
	return found
}

func (rw *rewriter) selectStmt(x *ast.SelectStmt) {
	s := rw.site(x.Pos(), "select")
	rw.imports["zsimrt"] = "verifsim/simrt"
	var hdr strings.Builder
	hdr.WriteString("{ ")
	var caseArgs []string
	hasDefault := false
	type binding struct {
		cc   *ast.CommClause
		idx  int
		text string
	}
	var binds []binding
	idx := 0
	ncomm := 0
	for _, st := range x.Body.List {
		if cc := st.(*ast.CommClause); cc.Comm != nil {
			ncomm++
		}
	}
	for _, st := range x.Body.List {
		cc := st.(*ast.CommClause)
		if cc.Comm == nil {
			hasDefault = true
			binds = append(binds, binding{cc, ncomm, ""})
			continue
		}
		cv := fmt.Sprintf("_c%d_%d", s, idx)
		var bind string
		switch c := cc.Comm.(type) {
		case *ast.SendStmt:
			if rw.containsRewritable(c.Chan) || rw.containsRewritable(c.Value) {
				fatal("%s: nested channel operation in select send operand", rw.fset.Position(c.Pos()))
			}
			rw.skip[c] = true
			fmt.Fprintf(&hdr, "%s := zsimrt.SendCase(%s)(%s); ", cv, rw.text(c.Chan), rw.text(c.Value))
			caseArgs = append(caseArgs, cv)
		case *ast.ExprStmt:
			u := c.X.(*ast.UnaryExpr)
			rw.skip[u] = true
			if rw.containsRewritable(u.X) {
				fatal("%s: nested channel operation in select receive operand", rw.fset.Position(c.Pos()))
			}
			fmt.Fprintf(&hdr, "%s := %s; ", cv, rw.text(u.X))
			caseArgs = append(caseArgs, "zsimrt.RecvCase("+cv+")")
		case *ast.AssignStmt:
			u := c.Rhs[0].(*ast.UnaryExpr)
			rw.skip[u] = true
			if rw.containsRewritable(u.X) {
				fatal("%s: nested channel operation in select receive operand", rw.fset.Position(c.Pos()))
			}
			fmt.Fprintf(&hdr, "%s := %s; ", cv, rw.text(u.X))
			caseArgs = append(caseArgs, "zsimrt.RecvCase("+cv+")")
			lhs := make([]string, len(c.Lhs))
			for i, l := range c.Lhs {
				lhs[i] = rw.text(l)
			}
			rhs := fmt.Sprintf("zsimrt.As(%s, _rv%d)", cv, s)
			if len(c.Lhs) == 2 {
				rhs += fmt.Sprintf(", _ok%d", s)
			}
			bind = fmt.Sprintf(" %s %s %s;", strings.Join(lhs, ", "), c.Tok, rhs)
		default:
			fatal("%s: unexpected select comm %T", rw.fset.Position(cc.Pos()), cc.Comm)
		}
		binds = append(binds, binding{cc, idx, bind})
		idx++
	}
	label := ""
	if l := rw.labels[x]; l != nil {
		label = l.Label.Name + ": "
		rw.add(l.Pos(), l.Colon+1, "")
	}
	fmt.Fprintf(&hdr, "_k%d, _rv%d, _ok%d := zsimrt.Select(%d, %v", s, s, s, s, hasDefault)
	for _, a := range caseArgs {
		hdr.WriteString(", " + a)
	}
	fmt.Fprintf(&hdr, "); _, _ = _rv%d, _ok%d; %sswitch _k%d {", s, s, label, s)
	rw.add(x.Select, x.Body.Lbrace+1, hdr.String())
	for _, b := range binds {
		rw.add(b.cc.Case, b.cc.Colon+1, fmt.Sprintf("case %d:%s", b.idx, b.text))
	}
	rw.add(x.Body.Rbrace, x.Body.Rbrace+1, "; default: panic(\"simrt: bad select index\") }}")
}

func (rw *rewriter) rangeChan(x *ast.RangeStmt) {
	s := rw.site(x.Pos(), "range")
	if rw.containsRewritable(x.X) {
		fatal("%s: nested channel operation in range operand", rw.fset.Position(x.Pos()))
	}
	rc := fmt.Sprintf("_rc%d", s)
	okv := fmt.Sprintf("_ok%d", s)
	var hdr, first string
	hdr = fmt.Sprintf("for %s := %s; ; {", rc, rw.text(x.X))
	switch {
	case x.Key == nil || rw.text(x.Key) == "_":
		first = fmt.Sprintf(" zsimrt.Tick(); if _, %s := zsimrt.Recv2(%d, %s); !%s { break };", okv, s, rc, okv)
	case x.Tok == token.DEFINE:
		first = fmt.Sprintf(" zsimrt.Tick(); %s, %s := zsimrt.Recv2(%d, %s); if !%s { break };", rw.text(x.Key), okv, s, rc, okv)
	default:
		first = fmt.Sprintf(" zsimrt.Tick(); var %s bool; %s, %s = zsimrt.Recv2(%d, %s); if !%s { break };", okv, rw.text(x.Key), okv, s, rc, okv)
	}
	rw.add(x.For, x.Body.Lbrace+1, hdr+first)
}

// rangeMap rewrites `for k, v := range m` over a map with an ordered basic key type into an iteration over the sorted
// keys (`for _, k := range zsimrt.SortedKeys(m) { v, ok := m[k]; if !ok { continue }; ...`). The order in which the Go
// runtime visits a map is random per process and invisible to the tape: where the loop body reaches a scheduling point
// (pandora's templaters look every header up in a sync.Map) equal seeds diverged. A sorted visit is one of the orders
// the language allows; entries deleted during the loop are skipped, entries added during it are not visited (both
// allowed). Only side-effect-free map expressions (identifiers and field selections) are rewritten, since the
// expression is evaluated once per iteration.
func (rw *rewriter) rangeMap(x *ast.RangeStmt) bool {
	if x.Body == nil || (x.Tok != token.DEFINE && x.Key != nil) {
		return false
	}
	tv, ok := rw.info.Types[x.X]
	if !ok || tv.Type == nil {
		return false
	}
	mt, ok := tv.Type.Underlying().(*types.Map)
	if !ok {
		return false
	}
	kb, ok := mt.Key().Underlying().(*types.Basic)
	if !ok || kb.Info()&(types.IsString|types.IsInteger) == 0 {
		return false
	}
	var simple func(e ast.Expr) bool
	simple = func(e ast.Expr) bool {
		switch v := e.(type) {
		case *ast.Ident:
			_, isPkg := rw.info.Uses[v].(*types.PkgName)
			return !isPkg
		case *ast.SelectorExpr:
			return simple(v.X)
		case *ast.ParenExpr:
			return simple(v.X)
		case *ast.StarExpr:
			return simple(v.X)
		}
		return false
	}
	if !simple(x.X) {
		return false
	}
	rw.imports["zsimrt"] = "verifsim/simrt"
	n := rw.off(x.Pos())
	m := "(" + rw.text(x.X) + ")"
	key := ""
	if x.Key != nil {
		key = rw.text(x.Key)
	}
	if key == "" || key == "_" {
		key = fmt.Sprintf("_mk%d", n)
	}
	val := ""
	if x.Value != nil && rw.text(x.Value) != "_" {
		val = rw.text(x.Value)
	}
	okv := fmt.Sprintf("_mok%d", n)
	hdr := fmt.Sprintf("for _, %s := range zsimrt.SortedKeys(%s) {", key, m)
	first := ""
	if val != "" {
		first = fmt.Sprintf(" zsimrt.Tick(); %s, %s := %s[%s]; if !%s { continue };", val, okv, m, key, okv)
	} else {
		first = fmt.Sprintf(" zsimrt.Tick(); if _, %s := %s[%s]; !%s { continue };", okv, m, key, okv)
	}
	rw.add(x.For, x.Body.Lbrace+1, hdr+first)
	return true
}

func (rw *rewriter) apply() []byte {
	es := rw.edits
	sort.SliceStable(es, func(i, j int) bool {
		if es[i].start != es[j].start {
			return es[i].start < es[j].start
		}
		// at one offset: closing inserts (innermost first), then opening
		// inserts (outermost first), then replacements
		ci, cj := es[i].closing, es[j].closing
		if ci != cj {
			return ci
		}
		if ci {
			return es[i].order > es[j].order
		}
		ai, aj := es[i].end == es[i].start, es[j].end == es[j].start
		if ai != aj {
			return ai
		}
		return es[i].order < es[j].order
	})
	var out bytes.Buffer
	pos := 0
	for _, e := range es {
		if e.start < pos {
			fatal("%s: overlapping edits at offset %d (%q)", rw.fset.Position(rw.file.Pos()).Filename, e.start, e.text)
		}
		out.Write(rw.src[pos:e.start])
		out.WriteString(e.text)
		pos = e.end
	}
	out.Write(rw.src[pos:])
	return out.Bytes()
}
