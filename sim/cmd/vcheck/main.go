// vcheck is the driver of the simulation checks: it instruments pandora from
// /repo's working tree into a scratch directory, builds the worker binary
// against the overlay, fans seeds out to worker processes, minimises and
// re-confirms every violation in a fresh process, compares signatures with
// /verif/known_findings.json, writes the evidence file and sets the exit code
// (0 held / known findings only, 1 new violation, 2 harness trouble).
package main

import (
	"bufio"
	"bytes"
	"crypto/sha256"
	"encoding/json"
	"flag"
	"fmt"
	"os"
	"os/exec"
	"path/filepath"
	"regexp"
	"runtime"
	"sort"
	"strconv"
	"strings"
	"sync"
	"time"
)

type Violation struct {
	Sig    string `json:"sig"`
	Detail string `json:"detail"`
}

type TapeData struct {
	Seed uint64 `json:"seed"`
	W    []int  `json:"workload"`
	F    []int  `json:"faults"`
	S    []int  `json:"schedule"`
}

type RunResult struct {
	Prop      string         `json:"property"`
	Seed      uint64         `json:"seed"`
	Tier      string         `json:"tier"`
	Mode      string         `json:"mode,omitempty"`
	Tape      TapeData       `json:"tape"`
	Viol      []Violation    `json:"violations"`
	Sample    any            `json:"sample,omitempty"`
	TraceHash string         `json:"trace_hash"`
	Steps     int            `json:"steps"`
	SimNS     int64          `json:"sim_ns"`
	Notes     map[string]int `json:"notes,omitempty"`
}

type Summary struct {
	Prop       string            `json:"property"`
	Runs       int               `json:"runs"`
	NonTrivial int               `json:"nontrivial"`
	Hashes     []uint64          `json:"hashes"`
	Notes      map[string]int    `json:"notes"`
	Faults     map[string][2]int `json:"faults"`
	Steps      int64             `json:"steps"`
	Switches   int64             `json:"switches"`
	SimNS      int64             `json:"sim_ns"`
	Stalls     int64             `json:"stalls"`
	Tasks      int64             `json:"tasks"`
	WallS      float64           `json:"wall_s"`
	Samples    []RunResult       `json:"samples"`
	Violations []RunResult       `json:"violations"`
	SiteHits   map[string]int    `json:"site_hits"`
	Leaks      map[string]int    `json:"leaks"`
	Classes    map[string]int    `json:"classes"`
	Rule       string            `json:"rule"`
	Components map[string]string `json:"components"`
}

type ReplayFile struct {
	Prop     string         `json:"property"`
	Seed     uint64         `json:"seed"`
	Tier     string         `json:"tier"`
	Mode     string         `json:"mode,omitempty"`
	Tape     TapeData       `json:"tape"`
	Verdict  Violation      `json:"verdict"`
	Min      map[string]int `json:"minimised_from,omitempty"`
	Sample   any            `json:"workload_sample,omitempty"`
	FromSeed bool           `json:"from_seed,omitempty"`
}

type Finding struct {
	Property    string `json:"property"`
	Signature   string `json:"signature"`
	Status      string `json:"status"` // known | fixed
	Commit      string `json:"commit,omitempty"`
	Description string `json:"description"`
}

type propConf struct {
	Level      string
	Quick      int // runs
	Thorough   int
	ThoroughS  int // wall budget seconds for thorough
	Chunk      int
	Race       bool
	Rule       string
	Components map[string]string
	Assume     []string
}

// verifDir is the directory that holds bin/, sim/, evidence/ (the parent of the executable's directory).
var verifDir = func() string {
	if exe, err := os.Executable(); err == nil {
		if d := filepath.Dir(filepath.Dir(exe)); d != "/" && d != "." {
			if _, err := os.Stat(filepath.Join(d, "sim", "go.mod")); err == nil {
				return d
			}
		}
	}
	return "/verif"
}()

var (
	fProp     = flag.String("prop", "", "property id")
	fTier     = flag.String("tier", "", "quick | thorough (default $VERIF_TIER or quick)")
	fRuns     = flag.Int("runs", 0, "override number of runs")
	fWorkers  = flag.Int("workers", 0, "worker processes (default: cores)")
	fReplay   = flag.String("replay", "", "replay file")
	fSelftest = flag.String("selftest", "", "determinism | passthrough")
	fKeep     = flag.Bool("keep", false, "keep the scratch directory")
	fRepo     = flag.String("repo", "/repo", "repository to simulate")
	fMode     = flag.String("mode", "", "force a sub-mode of the property")
	fBudget   = flag.Duration("budget", 0, "wall-clock budget for the run phase")
)

func die(code int, f string, a ...any) {
	fmt.Fprintf(os.Stderr, "vcheck: "+f+"\n", a...)
	os.Exit(code)
}

func goEnv() []string {
	env := os.Environ()
	set := func(k, v string) {
		for i, e := range env {
			if strings.HasPrefix(e, k+"=") {
				env[i] = k + "=" + v
				return
			}
		}
		env = append(env, k+"="+v)
	}
	set("GOFLAGS", "-mod=mod")
	set("GOPROXY", "off")
	set("GOSUMDB", "off")
	set("GOTOOLCHAIN", "local")
	set("GONOSUMCHECK", "1")
	return env
}

type build struct {
	dir   string
	bin   string
	sites string
}

func doBuild(race bool) *build {
	dir, err := os.MkdirTemp("", "vsim-")
	if err != nil {
		die(2, "mktemp: %v", err)
	}
	simDir := filepath.Join(verifDir, "sim")
	if *fRepo != "/repo" {
		// simulate another tree (sensitivity runs on scratch copies): a scratch go.mod with a different replace
		b, err := os.ReadFile(filepath.Join(simDir, "go.mod"))
		if err != nil {
			die(2, "%v", err)
		}
		nb := strings.Replace(string(b), "=> /repo", "=> "+*fRepo, 1)
		os.WriteFile(filepath.Join(dir, "go.mod"), []byte(nb), 0o644)
		sum, _ := os.ReadFile(filepath.Join(simDir, "go.sum"))
		os.WriteFile(filepath.Join(dir, "go.sum"), sum, 0o644)
	}
	args := []string{"-out", dir, "-sim", simDir, "-add", filepath.Join(simDir, "_overlay_add")}
	if race {
		args = append(args, "-race")
	}
	if *fRepo != "/repo" {
		args = append(args, "-modfile", filepath.Join(dir, "go.mod"))
	}
	cmd := exec.Command(filepath.Join(verifDir, "bin", "instr"), args...)
	cmd.Env = goEnv()
	var eb bytes.Buffer
	cmd.Stderr = &eb
	if err := cmd.Run(); err != nil {
		os.RemoveAll(dir)
		die(2, "instrumenter failed: %v\n%s", err, eb.String())
	}
	bin := filepath.Join(dir, "sim.test")
	bargs := []string{"test", "-c", "-vet=off", "-overlay", filepath.Join(dir, "overlay.json"), "-o", bin}
	if race {
		bargs = append(bargs, "-race")
	}
	if *fRepo != "/repo" {
		bargs = append(bargs, "-modfile", filepath.Join(dir, "go.mod"))
	}
	bargs = append(bargs, "./props")
	cmd = exec.Command("go1.26.8", bargs...)
	cmd.Dir = simDir
	cmd.Env = goEnv()
	out, err := cmd.CombinedOutput()
	if err != nil {
		if !*fKeep {
			os.RemoveAll(dir)
		}
		die(2, "build of the instrumented tree failed: %v\n%s", err, out)
	}
	return &build{dir: dir, bin: bin, sites: filepath.Join(dir, "sites.json")}
}

func (b *build) clean() {
	if !*fKeep {
		os.RemoveAll(b.dir)
	} else {
		fmt.Fprintln(os.Stderr, "vcheck: scratch kept at", b.dir)
	}
}

func (b *build) worker(gomaxprocs int, args ...string) *exec.Cmd {
	cmd := exec.Command(b.bin, append([]string{"-test.run", "^TestWorker$", "-test.timeout", "0", "-sites", b.sites}, args...)...)
	cmd.Dir = filepath.Join(verifDir, "sim", "props")
	env := os.Environ()
	env = append(env, "GOMAXPROCS="+strconv.Itoa(gomaxprocs), "GOTRACEBACK=all", "GORACE=halt_on_error=0 exitcode=66 history_size=3")
	cmd.Env = env
	return cmd
}

func loadFindings() []Finding {
	b, err := os.ReadFile(filepath.Join(verifDir, "known_findings.json"))
	if err != nil {
		return nil
	}
	var f struct {
		Findings []Finding `json:"findings"`
	}
	if err := json.Unmarshal(b, &f); err != nil {
		die(2, "known_findings.json: %v", err)
	}
	return f.Findings
}

func baseSeed() uint64 {
	if s := os.Getenv("VERIF_SEED"); s != "" {
		if v, err := strconv.ParseUint(s, 10, 64); err == nil {
			return v
		}
		if v, err := strconv.ParseInt(s, 10, 64); err == nil {
			return uint64(v)
		}
	}
	return 20260929
}

func main() {
	flag.Parse()
	if *fReplay != "" {
		os.Exit(doReplay(*fReplay))
	}
	if *fProp == "" {
		die(2, "need -prop")
	}
	tier := *fTier
	if tier == "" {
		tier = os.Getenv("VERIF_TIER")
	}
	if tier == "" {
		tier = "quick"
	}
	pc, ok := props[*fProp]
	if !ok {
		die(2, "unknown property %s", *fProp)
	}
	if *fSelftest == "determinism" {
		os.Exit(selftestDeterminism(pc))
	}
	if *fSelftest == "passthrough" {
		b := doBuild(false)
		defer b.clean()
		ok, msg := selftestPassthrough(b, true)
		fmt.Fprintln(os.Stderr, "passthrough:", msg)
		if !ok {
			b.clean()
			os.Exit(2)
		}
		return
	}
	os.Exit(check(*fProp, pc, tier))
}

type chunk struct{ from, count int }

func check(prop string, pc propConf, tier string) int {
	start := time.Now()
	seed := baseSeed()
	b := doBuild(pc.Race)
	defer b.clean()
	buildS := time.Since(start).Seconds()

	gates := map[string]string{}
	if tier == "thorough" && os.Getenv("VERIF_SKIP_GATES") == "" {
		// gates of the thorough tier (DESIGN.md section 6): the instrumenter preserves semantics (pandora's own
		// suite passes on the instrumented tree, shims in pass-through mode) and equal seeds give equal traces
		ok, msg := selftestPassthrough(b, false)
		gates["instrumenter_passthrough_suite"] = msg
		if !ok {
			fmt.Fprintln(os.Stderr, "vcheck: gate failed:", msg)
			return 2
		}
		if !pc.Race {
			n := *fRuns
			*fRuns = 32
			rc := selftestDeterminismOn(b, pc)
			*fRuns = n
			gates["determinism_32_seeds_x6"] = map[int]string{0: "ok", 2: "FAILED"}[rc]
			if rc != 0 {
				return 2
			}
		}
	}
	gatesGlobal = gates
	runs := pc.Quick
	budget := 10 * time.Minute
	if tier == "thorough" {
		runs = pc.Thorough
		budget = time.Duration(pc.ThoroughS) * time.Second
	}
	if *fRuns > 0 {
		runs = *fRuns
	}
	if *fBudget > 0 {
		budget = *fBudget
	}
	workers := *fWorkers
	if workers <= 0 {
		workers = runtime.NumCPU()
	}
	csize := pc.Chunk
	if csize == 0 {
		csize = 500
	}
	if runs/workers < csize {
		csize = (runs + workers - 1) / workers
	}
	var chunks []chunk
	for f := 0; f < runs; f += csize {
		c := csize
		if f+c > runs {
			c = runs - f
		}
		chunks = append(chunks, chunk{f, c})
	}
	var (
		mu         sync.Mutex
		sums       []Summary
		trouble    []string
		crashes    []RunResult
		next       int
		retried    int
		thirdParty = map[string]int{}
	)
	deadline := time.Now().Add(budget)
	var wg sync.WaitGroup
	for w := 0; w < workers; w++ {
		wg.Add(1)
		go func(w int) {
			defer wg.Done()
			for {
				mu.Lock()
				if next >= len(chunks) || time.Now().After(deadline) {
					mu.Unlock()
					return
				}
				ci := next
				next++
				mu.Unlock()
				c := chunks[ci]
				out := filepath.Join(b.dir, fmt.Sprintf("out-%d.json", ci))
				left := time.Until(deadline)
				args := []string{"-prop", prop, "-tier", tier, "-base", fmt.Sprint(seed), "-from", fmt.Sprint(c.from), "-count", fmt.Sprint(c.count), "-out", out, "-deadline", left.String()}
				if *fMode != "" {
					args = append(args, "-mode", *fMode)
				}
				var (
					eb    bytes.Buffer
					err   error
					s     Summary
					rerr  error
					okSum bool
				)
				for attempt := 0; attempt < 2; attempt++ {
					// a worker that dies of the wall-clock watchdog or is killed (an overloaded machine) gets one more
					// try in a fresh process: runs are deterministic, so a genuine hang dies again and is reported
					eb.Reset()
					os.Remove(out)
					s = Summary{}
					cmd := b.worker(1, args...)
					cmd.Stderr = &eb
					cmd.Stdout = &eb
					err = cmd.Run()
					var ob []byte
					ob, rerr = os.ReadFile(out)
					okSum = rerr == nil && json.Unmarshal(bytes.TrimSpace(ob), &s) == nil && s.Prop == prop
					if okSum || !(strings.Contains(eb.String(), "WATCHDOG") || strings.Contains(fmt.Sprint(err), "signal: killed")) {
						break
					}
					mu.Lock()
					retried++
					mu.Unlock()
				}
				raceExit := false
				if ee, ok := err.(*exec.ExitError); ok && (ee.ExitCode() == 66 || (ee.ExitCode() == 1 && strings.Contains(eb.String(), "race detected during execution of test"))) {
					// the race detector reported something: the test binary exits non-zero although every run completed
					raceExit = true
				}
				if os.Getenv("VCHECK_DEBUG") != "" {
					fmt.Fprintf(os.Stderr, "vcheck: chunk %d: err=%v readErr=%v okSum=%v runs=%d stderrBytes=%d\n%s\n", ci, err, rerr, okSum, s.Runs, eb.Len(), cut(eb.String(), 2500))
				}
				mu.Lock()
				if okSum && raceExit {
					rv, rt := raceReports(prop, tier, eb.String())
					crashes = append(crashes, rv...)
					trouble = append(trouble, rt...)
					for k, v := range raceThirdParty(eb.String()) {
						thirdParty[k] += v
					}
				}
				if okSum && (err == nil || raceExit) {
					sums = append(sums, s)
					if len(s.Violations) > 0 {
						// violations found: no need to spend the whole budget on a broken tree
						if d := time.Now().Add(20 * time.Second); d.Before(deadline) {
							deadline = d
						}
					}
				} else {
					cr, t := classifyWorkerDeath(prop, tier, eb.String(), err)
					if cr != nil {
						crashes = append(crashes, *cr)
					} else {
						trouble = append(trouble, t)
					}
				}
				mu.Unlock()
				os.Remove(out)
			}
		}(w)
	}
	wg.Wait()
	if len(trouble) > 0 {
		fmt.Fprintf(os.Stderr, "vcheck: worker trouble (not a verdict):\n%s\n", strings.Join(trouble, "\n---\n"))
		return 2
	}
	// merge
	total := Summary{Prop: prop, Notes: map[string]int{}, Faults: map[string][2]int{}, Leaks: map[string]int{}, Classes: map[string]int{}, SiteHits: map[string]int{}}
	hashes := map[uint64]bool{}
	var viols []RunResult
	for _, s := range sums {
		total.Runs += s.Runs
		total.Rule, total.Components = s.Rule, s.Components
		total.NonTrivial += s.NonTrivial
		total.Steps += s.Steps
		total.Switches += s.Switches
		total.SimNS += s.SimNS
		total.Stalls += s.Stalls
		total.Tasks += s.Tasks
		for _, h := range s.Hashes {
			hashes[h] = true
		}
		for k, v := range s.Notes {
			total.Notes[k] += v
		}
		for k, v := range s.Faults {
			f := total.Faults[k]
			f[0] += v[0]
			f[1] += v[1]
			total.Faults[k] = f
		}
		for k, v := range s.Leaks {
			total.Leaks[k] += v
		}
		for k, v := range s.SiteHits {
			total.SiteHits[k] += v
		}
		for k, v := range s.Classes {
			total.Classes[k] += v
		}
		if len(total.Samples) < 3 {
			total.Samples = append(total.Samples, s.Samples...)
		}
		viols = append(viols, s.Violations...)
	}
	if retried > 0 {
		total.Notes["worker-chunk-retried-after-watchdog-or-kill"] += retried
	}
	for k, v := range thirdParty {
		total.Notes["data-race-report-wholly-in-third-party-code:"+k] += v
	}
	viols = append(viols, crashes...)
	sort.Slice(viols, func(i, j int) bool { return viols[i].Seed < viols[j].Seed })
	if total.Runs == 0 {
		fmt.Fprintln(os.Stderr, "vcheck: no runs completed")
		return 2
	}

	// group by signature, minimise + confirm the first of each
	findings := loadFindings()
	bySig := map[string][]RunResult{}
	var order []string
	for _, v := range viols {
		for _, x := range v.Viol {
			if _, ok := bySig[x.Sig]; !ok {
				order = append(order, x.Sig)
			}
			bySig[x.Sig] = append(bySig[x.Sig], v)
		}
	}
	sort.Strings(order)
	exit := 0
	newViol := 0
	var knownLines, violLines []string
	os.MkdirAll(filepath.Join(verifDir, "replays"), 0o755)
	type job struct {
		sig     string
		verdict Violation
		rf      ReplayFile
		path    string
		ok      bool
		why     string
	}
	var jobs []*job
	for _, sig := range order {
		status := ""
		desc := ""
		for _, f := range findings {
			if f.Property == prop && f.Signature == sig && f.Status == "known" {
				status, desc = "known", f.Description
			}
		}
		if status == "known" {
			knownLines = append(knownLines, fmt.Sprintf("KNOWN-FINDING: property=%s %s — %s (reproduced %d times, e.g. seed %d)", prop, sig, desc, len(bySig[sig]), bySig[sig][0].Seed))
			continue
		}
		v := bySig[sig][0]
		var verdict Violation
		for _, x := range v.Viol {
			if x.Sig == sig {
				verdict = x
			}
		}
		fromSeed := strings.Contains(sig, "/FATAL/") || strings.Contains(sig, "/DATA-RACE/")
		jobs = append(jobs, &job{sig: sig, verdict: verdict, rf: ReplayFile{Prop: prop, Seed: v.Seed, Tier: tier, Mode: v.Mode, Tape: v.Tape, Verdict: verdict, Sample: v.Sample, FromSeed: fromSeed}})
	}
	// minimise + confirm the signatures in parallel (independent worker processes)
	var jwg sync.WaitGroup
	jsem := make(chan struct{}, 8)
	for _, j := range jobs {
		jwg.Add(1)
		go func(j *job) {
			defer jwg.Done()
			jsem <- struct{}{}
			defer func() { <-jsem }()
			j.path, j.ok, j.why = minimiseAndConfirm(b, j.rf)
		}(j)
	}
	jwg.Wait()
	for _, j := range jobs {
		if !j.ok {
			fmt.Fprintf(os.Stderr, "vcheck: violation %s (seed %d) did not replay: %s — harness trouble, not reported as a violation\n", j.sig, j.rf.Seed, j.why)
			exit = 2
			continue
		}
		newViol++
		violLines = append(violLines, fmt.Sprintf("VIOLATION property=%s replay=%s", prop, j.path))
		fmt.Fprintf(os.Stderr, "vcheck: %s: %s\n", j.sig, firstLine(j.verdict.Detail))
	}
	for _, l := range knownLines {
		fmt.Println(l)
	}
	for _, l := range violLines {
		fmt.Println(l)
	}
	wall := time.Since(start).Seconds()
	writeEvidence(prop, pc, tier, seed, total, len(hashes), newViol, len(knownLines), order, bySig, wall, buildS, workers, b)
	fmt.Fprintf(os.Stderr, "vcheck: %s %s: %d runs, %d non-trivial (%d distinct traces), %d steps, sim time %v, %d new violation signature(s), %d known, wall %.1fs (build %.1fs)\n",
		prop, tier, total.Runs, total.NonTrivial, len(hashes), total.Steps, time.Duration(total.SimNS), newViol, len(knownLines), wall, buildS)
	if newViol > 0 {
		return 1
	}
	return exit
}

func firstLine(s string) string {
	if i := strings.IndexByte(s, '\n'); i >= 0 {
		s = s[:i]
	}
	if len(s) > 400 {
		s = s[:400] + "…"
	}
	return s
}

// raceReports extracts the data race reports of a worker's stderr. A report with a pandora frame is a verdict
// for the seed whose BEGIN line precedes it; a report whose stacks lie wholly in the harness is harness trouble.
func raceReports(prop, tier, stderr string) (viols []RunResult, trouble []string) {
	seen := map[string]bool{}
	rest := stderr
	off := 0
	for {
		i := strings.Index(rest, "WARNING: DATA RACE")
		if i < 0 {
			break
		}
		j := strings.Index(rest[i:], "==================\n")
		block := rest[i:]
		if j >= 0 {
			block = rest[i : i+j]
		}
		before := stderr[:off+i]
		ms := beginRe.FindAllStringSubmatch(before, -1)
		var seed uint64
		if len(ms) > 0 {
			seed, _ = strconv.ParseUint(ms[len(ms)-1][2], 10, 64)
		}
		sig, kind := raceSignature(prop, block)
		switch kind {
		case "pandora":
			if !seen[sig] {
				seen[sig] = true
				viols = append(viols, RunResult{Prop: prop, Seed: seed, Tier: tier, Tape: TapeData{Seed: seed}, Viol: []Violation{{Sig: sig, Detail: cut(block, 6000)}}})
			}
		case "harness":
			// the harness's own bookkeeping (shared slices and counters of its tasks) is serialised by the
			// scheduler, whose synchronisation is hidden from the detector on purpose: not a finding
		}
		adv := i + len("WARNING: DATA RACE")
		rest = rest[adv:]
		off += adv
	}
	return
}

var raceFrameRe = regexp.MustCompile(`(?m)^  (\S+)\(\)\s*$`)

// raceSignature classifies one report. Each of the two access stacks is attributed to the code that made
// the access: "harness" if the innermost non-runtime frame is simulator / harness code (its bookkeeping is
// serialised by the scheduler, whose synchronisation is hidden from the detector on purpose) or if the stack has
// harness frames but no pandora frame at all; "pandora" if the access was made by pandora code or by a library
// called from pandora code; "third-party" otherwise (library goroutines). A report is a finding when no side is
// the harness and at least one side is pandora; its signature is the innermost pandora function of each side.
func raceSignature(prop, block string) (string, string) {
	parts := regexp.MustCompile(`(?m)^(?:Write at|Read at|Previous write at|Previous read at|Previous atomic write at|Previous atomic read at|Atomic write at|Atomic read at|Goroutine \d+ \()`).Split(block, -1)
	var fr []string
	sides := map[string]int{}
	for k, p := range parts {
		if k == 0 || k > 2 {
			continue // only the two access stacks
		}
		first, pandora, harness := "", "", false
		for _, m := range raceFrameRe.FindAllStringSubmatch(p, -1) {
			f := m[1]
			isRuntime := strings.HasPrefix(f, "runtime.") || strings.HasPrefix(f, "internal/") || strings.HasPrefix(f, "sync.") || strings.HasPrefix(f, "sync/atomic.") || strings.HasPrefix(f, "reflect.")
			if first == "" && !isRuntime {
				first = f
			}
			if pandora == "" && strings.Contains(f, "github.com/yandex/pandora/") {
				pandora = strings.TrimPrefix(f, "github.com/yandex/pandora/")
			}
			if strings.HasPrefix(f, "verifsim/") {
				harness = true
			}
		}
		switch {
		case strings.HasPrefix(first, "verifsim/"):
			sides["harness"]++
		case pandora != "":
			sides["pandora"]++
			fr = append(fr, pandora)
		case harness:
			sides["harness"]++
		default:
			sides["third-party"]++
		}
	}
	switch {
	case sides["harness"] > 0:
		return "", "harness"
	case sides["pandora"] > 0:
		sort.Strings(fr)
		return prop + "/DATA-RACE/" + strings.Join(fr, "+"), "pandora"
	}
	return "", "third-party"
}

func raceThirdParty(stderr string) map[string]int {
	out := map[string]int{}
	for _, b := range strings.Split(stderr, "WARNING: DATA RACE")[1:] {
		_, kind := raceSignature("", b)
		if kind == "harness" {
			out["(harness bookkeeping, ignored)"]++
		}
		if kind == "third-party" {
			m := raceFrameRe.FindStringSubmatch(b)
			k := "unknown"
			if m != nil {
				k = m[1]
			}
			out[k]++
		}
	}
	return out
}

var gatesGlobal map[string]string

var beginRe = regexp.MustCompile(`BEGIN property=(\S+) seed=(\d+)`)

// classifyWorkerDeath: a worker that died without a summary. A runtime fatal
// error or data race report inside pandora code is a verdict for the seed that
// was running; anything else is harness trouble.
func classifyWorkerDeath(prop, tier, stderr string, err error) (*RunResult, string) {
	ms := beginRe.FindAllStringSubmatch(stderr, -1)
	tail := stderr
	if len(tail) > 6000 {
		tail = tail[len(tail)-6000:]
	}
	if len(ms) == 0 || strings.Contains(stderr, "WATCHDOG") {
		head := ""
		if i := strings.Index(stderr, "WATCHDOG property="); i >= 0 {
			head = cut(stderr[i:], 12000) + "\n[...]\n"
		}
		return nil, fmt.Sprintf("worker failed: %v\n%s%s", err, head, tail)
	}
	seed, _ := strconv.ParseUint(ms[len(ms)-1][2], 10, 64)
	if i := strings.Index(stderr, "fatal error: "); i >= 0 && strings.Contains(stderr[i:], "github.com/yandex/pandora") {
		msg := firstLine(stderr[i:])
		fr := pandoraFrame.FindStringSubmatch(stderr[i:])
		sig := prop + "/FATAL/" + strings.TrimPrefix(msg, "fatal error: ")
		if fr != nil {
			sig += "/" + fr[1] + "." + fr[2]
		}
		return &RunResult{Prop: prop, Seed: seed, Tier: tier, Tape: TapeData{Seed: seed}, Viol: []Violation{{Sig: sig, Detail: cut(stderr[i:], 3000)}}}, ""
	}
	if cr := classifyPanic(prop, tier, seed, stderr); cr != nil {
		return cr, ""
	}
	return nil, fmt.Sprintf("worker failed (seed %d): %v\n%s", seed, err, tail)
}

// classifyPanic recognises a process death by a panic nobody recovered (a goroutine the simulator does not manage, e.g. one
// of net/http's own, running pandora's code): it is a verdict when the first frame of the panicking goroutine that is neither
// the runtime's nor the standard library's belongs to pandora, and trouble when it belongs to the harness.
func classifyPanic(prop, tier string, seed uint64, stderr string) *RunResult {
	i := strings.Index(stderr, "\npanic: ")
	if i < 0 {
		return nil
	}
	rest := stderr[i+1:]
	g := strings.Index(rest, "\ngoroutine ")
	if g < 0 || !strings.Contains(firstLine(rest[g+1:]), "[running") {
		return nil
	}
	block := rest[g+1:]
	if e := strings.Index(block, "\n\n"); e >= 0 {
		block = block[:e]
	}
	for _, ln := range strings.Split(block, "\n")[1:] {
		if strings.HasPrefix(ln, "\t") || strings.HasPrefix(ln, "created by ") {
			continue
		}
		if strings.HasPrefix(ln, "verifsim/") {
			return nil
		}
		if fr := pandoraFrame.FindStringSubmatch(ln); fr != nil && strings.HasPrefix(ln, "github.com/yandex/pandora/") {
			sig := prop + "/FATAL/unrecovered " + firstLine(rest) + "/" + fr[1] + "." + fr[2]
			return &RunResult{Prop: prop, Seed: seed, Tier: tier, Tape: TapeData{Seed: seed}, Viol: []Violation{{Sig: sig, Detail: cut(rest, 3000)}}}
		}
	}
	return nil
}

var pandoraFrame = regexp.MustCompile(`github\.com/yandex/pandora/([^\s(]+)\.([A-Za-z0-9_.()*]+)\(`)

func cut(s string, n int) string {
	if len(s) > n {
		return s[:n]
	}
	return s
}

// minimiseAndConfirm writes the replay file, shrinks it in a worker process,
// then replays the result in a fresh process and requires the same signature.
func minimiseAndConfirm(b *build, rf ReplayFile) (string, bool, string) {
	sigSafe := regexp.MustCompile(`[^A-Za-z0-9]+`).ReplaceAllString(strings.TrimPrefix(rf.Verdict.Sig, rf.Prop+"/"), "-")
	if len(sigSafe) > 60 {
		sigSafe = sigSafe[:60]
	}
	name := fmt.Sprintf("%s-%d-%s.json", rf.Prop, rf.Seed, sigSafe)
	final := filepath.Join(verifDir, "replays", name)
	raw := filepath.Join(b.dir, "raw-"+name)
	jb, _ := json.MarshalIndent(rf, "", " ")
	os.WriteFile(raw, jb, 0o644)
	minOut := filepath.Join(b.dir, "min-"+name)
	var err error = fmt.Errorf("not minimised")
	var eb bytes.Buffer
	if !rf.FromSeed {
		cmd := b.worker(1, "-minimise", raw, "-out", minOut, "-deadline", "20s")
		cmd.Stderr, cmd.Stdout = &eb, &eb
		err = cmd.Run()
	}
	use := raw
	if err == nil {
		use = minOut
	} else if ee, ok := err.(*exec.ExitError); ok && ee.ExitCode() == 3 {
		return "", false, "the recorded tape does not reproduce the violation"
	}
	// a FATAL (process death) cannot be minimised in-process: replay raw
	ok, why := confirm(b, use, rf.Verdict.Sig)
	if !ok && use != raw {
		use = raw
		ok, why = confirm(b, raw, rf.Verdict.Sig)
	}
	if !ok {
		return "", false, why
	}
	data, _ := os.ReadFile(use)
	os.WriteFile(final, data, 0o644)
	return final, true, ""
}

func confirm(b *build, path, sig string) (bool, string) {
	out := path + ".replayed"
	cmd := b.worker(1, "-replay", path, "-out", out)
	var eb bytes.Buffer
	cmd.Stderr, cmd.Stdout = &eb, &eb
	err := cmd.Run()
	if strings.Contains(sig, "/DATA-RACE/") {
		// the schedule of pandora's tasks replays exactly; what the detector can still tell apart is how the un-yielded
		// goroutines of net/http and grpc-go (which run in parallel with the released task) were spread over threads, so
		// the regenerated run gets three attempts, at the worker count of the batch as well as at one
		for attempt := 0; attempt < 3; attempt++ {
			if attempt > 0 {
				eb.Reset()
				procs := 1
				if attempt == 2 {
					procs = 4
				}
				cmd = b.worker(procs, "-replay", path, "-out", out)
				cmd.Stderr, cmd.Stdout = &eb, &eb
				cmd.Run()
			}
			vs, _ := raceReports(strings.SplitN(sig, "/", 2)[0], "", eb.String())
			for _, v := range vs {
				if v.Viol[0].Sig == sig {
					return true, ""
				}
			}
		}
		return false, "the replay shows no such data race report"
	}
	ob, _ := os.ReadFile(out)
	var rr RunResult
	if json.Unmarshal(bytes.TrimSpace(ob), &rr) == nil {
		for _, v := range rr.Viol {
			if v.Sig == sig {
				return true, ""
			}
		}
		var got []string
		for _, v := range rr.Viol {
			got = append(got, v.Sig)
		}
		return false, fmt.Sprintf("replay gave %v", got)
	}
	if err != nil && strings.Contains(sig, "/FATAL/") && (strings.Contains(eb.String(), "fatal error: ") || strings.Contains(eb.String(), "\npanic: ")) {
		return true, ""
	}
	if strings.Contains(sig, "/DATA-RACE/") {
		vs, _ := raceReports(strings.SplitN(sig, "/", 2)[0], "", eb.String())
		for _, v := range vs {
			if v.Viol[0].Sig == sig {
				return true, ""
			}
		}
		return false, "the replay shows no such data race report"
	}
	return false, fmt.Sprintf("replay failed: %v %s", err, cut(eb.String(), 500))
}

func doReplay(path string) int {
	if ap, err := filepath.Abs(path); err == nil {
		path = ap
	}
	data, err := os.ReadFile(path)
	if err != nil {
		die(2, "%v", err)
	}
	var rf ReplayFile
	if err := json.Unmarshal(data, &rf); err != nil {
		die(2, "%v", err)
	}
	pc := props[rf.Prop]
	b := doBuild(pc.Race)
	defer b.clean()
	out := filepath.Join(b.dir, "replayed.json")
	cmd := b.worker(1, "-replay", path, "-out", out, "-trace")
	cmd.Stderr = os.Stderr
	cmd.Stdout = os.Stderr
	err = cmd.Run()
	ob, _ := os.ReadFile(out)
	var rr struct {
		RunResult
		Trace []string `json:"trace"`
	}
	if json.Unmarshal(bytes.TrimSpace(ob), &rr) != nil {
		if err != nil && strings.Contains(rf.Verdict.Sig, "/FATAL/") {
			fmt.Printf("VIOLATION property=%s replay=%s\n", rf.Prop, path)
			return 1
		}
		die(2, "replay worker failed: %v", err)
	}
	if strings.Contains(rf.Verdict.Sig, "/DATA-RACE/") {
		// the worker's stderr went to ours; run once more capturing it to find the report
		c2 := b.worker(1, "-replay", path, "-out", out)
		var eb2 bytes.Buffer
		c2.Stderr, c2.Stdout = &eb2, &eb2
		c2.Run()
		vs, _ := raceReports(rf.Prop, "", eb2.String())
		for _, v := range vs {
			if v.Viol[0].Sig == rf.Verdict.Sig {
				fmt.Fprintln(os.Stderr, v.Viol[0].Detail)
				fmt.Printf("VIOLATION property=%s replay=%s\n", rf.Prop, path)
				return 1
			}
		}
		fmt.Fprintf(os.Stderr, "vcheck: replay of %s no longer shows %s\n", path, rf.Verdict.Sig)
		return 0
	}
	for _, l := range rr.Trace {
		fmt.Fprintln(os.Stderr, "  ", l)
	}
	for _, v := range rr.Viol {
		fmt.Fprintf(os.Stderr, "%s\n  %s\n", v.Sig, v.Detail)
	}
	for _, v := range rr.Viol {
		if v.Sig == rf.Verdict.Sig {
			fmt.Printf("VIOLATION property=%s replay=%s\n", rf.Prop, path)
			return 1
		}
	}
	fmt.Fprintf(os.Stderr, "vcheck: replay of %s no longer shows %s\n", path, rf.Verdict.Sig)
	return 0
}

// selftestDeterminism runs the same seeds in separate processes at several
// GOMAXPROCS values and compares the full decision traces.
func selftestDeterminism(pc propConf) int {
	b := doBuild(pc.Race)
	defer b.clean()
	return selftestDeterminismOn(b, pc)
}

func selftestDeterminismOn(b *build, pc propConf) int {
	seed := baseSeed()
	n := 48
	if *fRuns > 0 {
		n = *fRuns
	}
	type key struct {
		gmp, rep int
	}
	outs := map[key]string{}
	var mu sync.Mutex
	var wg sync.WaitGroup
	sem := make(chan struct{}, 4)
	for _, g := range []int{1, 4, 16} {
		for rep := 0; rep < 2; rep++ {
			wg.Add(1)
			go func(g, rep int) {
				defer wg.Done()
				sem <- struct{}{}
				defer func() { <-sem }()
				out := filepath.Join(b.dir, fmt.Sprintf("det-%d-%d.json", g, rep))
				args := []string{"-prop", *fProp, "-base", fmt.Sprint(seed), "-count", fmt.Sprint(n), "-out", out, "-trace"}
				if *fMode != "" {
					args = append(args, "-mode", *fMode)
				}
				cmd := b.worker(g, args...)
				var eb bytes.Buffer
				cmd.Stderr, cmd.Stdout = &eb, &eb
				if err := cmd.Run(); err != nil {
					fmt.Fprintf(os.Stderr, "worker failed: %v\n%s\n", err, cut(eb.String(), 3000))
				}
				data, _ := os.ReadFile(out)
				mu.Lock()
				outs[key{g, rep}] = string(data)
				mu.Unlock()
			}(g, rep)
		}
	}
	wg.Wait()
	ref := outs[key{1, 0}]
	if ref == "" {
		fmt.Fprintln(os.Stderr, "determinism: no reference output")
		return 2
	}
	bad := 0
	for k, v := range outs {
		if v != ref {
			bad++
			fmt.Fprintf(os.Stderr, "determinism: GOMAXPROCS=%d rep=%d differs from reference\n", k.gmp, k.rep)
			showFirstDiff(ref, v)
		}
	}
	lines := strings.Count(ref, "\n")
	if bad > 0 {
		fmt.Fprintf(os.Stderr, "determinism: FAILED (%d of %d executions differ)\n", bad, len(outs))
		return 2
	}
	fmt.Fprintf(os.Stderr, "determinism: OK — %d seeds x %d executions (GOMAXPROCS 1,4,16 x2) byte-identical traces\n", lines, len(outs))
	return 0
}

func showFirstDiff(a, b string) {
	sa := bufio.NewScanner(strings.NewReader(a))
	sb := bufio.NewScanner(strings.NewReader(b))
	sa.Buffer(make([]byte, 1<<20), 1<<28)
	sb.Buffer(make([]byte, 1<<20), 1<<28)
	ln := 0
	for sa.Scan() && sb.Scan() {
		ln++
		if sa.Text() != sb.Text() {
			var ja, jb struct {
				Seed  uint64   `json:"seed"`
				Trace []string `json:"trace"`
				Viol  []string `json:"viol"`
			}
			json.Unmarshal([]byte(sa.Text()), &ja)
			json.Unmarshal([]byte(sb.Text()), &jb)
			fmt.Fprintf(os.Stderr, "  first differing run: line %d seed %d viol %v vs %v\n", ln, ja.Seed, ja.Viol, jb.Viol)
			for i := 0; i < len(ja.Trace) && i < len(jb.Trace); i++ {
				if ja.Trace[i] != jb.Trace[i] {
					lo := i - 3
					if lo < 0 {
						lo = 0
					}
					for j := lo; j <= i; j++ {
						fmt.Fprintf(os.Stderr, "    A: %s\n    B: %s\n", ja.Trace[j], jb.Trace[j])
					}
					break
				}
			}
			if len(ja.Trace) != len(jb.Trace) {
				fmt.Fprintf(os.Stderr, "    trace lengths %d vs %d\n", len(ja.Trace), len(jb.Trace))
			}
			return
		}
	}
}

func writeEvidence(prop string, pc propConf, tier string, seed uint64, t Summary, distinct, newViol, known int, order []string, bySig map[string][]RunResult, wall, buildS float64, workers int, b *build) {
	var samples []any
	for _, s := range t.Samples {
		samples = append(samples, map[string]any{"seed": s.Seed, "workload": s.Sample, "tape": s.Tape, "trace_hash": s.TraceHash, "steps": s.Steps, "sim_ns": s.SimNS, "violations": s.Viol})
		if len(samples) >= 3 {
			break
		}
	}
	if len(samples) == 0 {
		samples = append(samples, map[string]any{"note": "no non-trivial sample recorded"})
	}
	faults := map[string]any{}
	for k, v := range t.Faults {
		faults[k] = map[string]int{"configured": v[0], "fired": v[1]}
	}
	sigCounts := map[string]int{}
	for _, s := range order {
		sigCounts[s] = len(bySig[s])
	}
	runPhase := wall - buildS
	if runPhase <= 0 {
		runPhase = 0.001
	}
	ev := map[string]any{
		"property_id": prop,
		"tier":        tier,
		"seed":        int64(seed & 0x7fffffffffffffff),
		"level":       pc.Level,
		"coverage": map[string]any{
			"evaluations":               t.Runs,
			"distinct_nontrivial":       distinct,
			"rule":                      t.Rule,
			"samples":                   samples,
			"nontrivial_runs":           t.NonTrivial,
			"scheduling_decisions":      t.Steps,
			"context_switches":          t.Switches,
			"tasks_created":             t.Tasks,
			"injected_stalls":           t.Stalls,
			"simulated_time_s":          float64(t.SimNS) / 1e9,
			"runs_per_hour":             float64(t.Runs) / runPhase * 3600,
			"fault_kinds":               faults,
			"reach_probes":              t.Notes,
			"infrastructure_verdicts":   t.Classes,
			"leaked_tasks":              t.Leaks,
			"violation_signatures":      sigCounts,
			"known_findings_reproduced": known,
			"components":                t.Components,
			"workers":                   workers,
			"build_s":                   buildS,
			"gates":                     gatesGlobal,
			"sync_sites":                syncSites(b, t.SiteHits),
		},
		"assumptions": append([]string{
			"yield points exist only at pandora's synchronisation operations (channel ops, select, sync.*, atomics, context cancel, time.Sleep, go statements) as inserted by /verif/sim/cmd/instr; interleavings between plain memory accesses are not explored",
			"Go standard library and third-party goroutines run un-yielded inside the testing/synctest bubble on its fake clock",
			"seeded search over schedules and faults: a clean batch is evidence, not proof",
		}, pc.Assume...),
		"wall_s":     wall,
		"violations": newViol,
	}
	if *fRepo != "/repo" {
		// a scratch tree (seeded change): evidence files describe runs against /repo only
		return
	}
	jb, _ := json.MarshalIndent(ev, "", " ")
	os.MkdirAll(filepath.Join(verifDir, "evidence"), 0o755)
	if err := os.WriteFile(filepath.Join(verifDir, "evidence", prop+".json"), jb, 0o644); err != nil {
		die(2, "evidence: %v", err)
	}
}

// syncSites: which channel operations, selects and go statements of pandora's sources (the sites the instrumenter
// numbered) were the release point of at least one scheduling decision in this batch, and which never were.
func syncSites(b *build, hits map[string]int) map[string]any {
	out := map[string]any{}
	data, err := os.ReadFile(b.sites)
	if err != nil {
		return out
	}
	var all map[string]string
	if json.Unmarshal(data, &all) != nil {
		return out
	}
	var unreached []string
	total, reached := 0, 0
	for _, name := range all {
		if strings.HasPrefix(name, "props/") || strings.HasPrefix(name, "stubs/") || strings.Contains(name, "zz_verif_export.go") {
			continue // the harness's own (instrumented) sources
		}
		total++
		if hits[name] > 0 {
			reached++
		} else {
			unreached = append(unreached, name)
		}
	}
	sort.Strings(unreached)
	out["measure"] = "channel operations, selects, range-over-channel loops and go statements in pandora's non-test sources that were a scheduling point of at least one run of this batch"
	out["in_pandora"] = total
	out["reached"] = reached
	out["unreached"] = unreached
	return out
}

// selftestPassthrough runs pandora's own test suite against the instrumented sources (the overlay of this build),
// where every shim is a pass-through because no simulation is active: evidence that the rewrite preserves
// semantics. The result is cached per content of the overlay (the suite takes minutes).
func selftestPassthrough(b *build, force bool) (bool, string) {
	ov, err := os.ReadFile(filepath.Join(b.dir, "overlay.json"))
	if err != nil {
		return false, err.Error()
	}
	var m struct{ Replace map[string]string }
	json.Unmarshal(ov, &m)
	keys := make([]string, 0, len(m.Replace))
	for k := range m.Replace {
		keys = append(keys, k)
	}
	sort.Strings(keys)
	h := sha256.New()
	for _, k := range keys {
		data, _ := os.ReadFile(m.Replace[k])
		h.Write([]byte(k))
		h.Write(data)
	}
	sum := fmt.Sprintf("%x", h.Sum(nil))[:24]
	cacheDir := filepath.Join(verifDir, ".cache")
	cacheFile := filepath.Join(cacheDir, "passthrough-"+sum)
	if !force {
		if st, err := os.Stat(cacheFile); err == nil && time.Since(st.ModTime()) < 24*time.Hour {
			data, _ := os.ReadFile(cacheFile)
			return true, strings.TrimSpace(string(data)) + " (cached)"
		}
	}
	start := time.Now()
	shell := "go1.26.8 test -overlay " + filepath.Join(b.dir, "overlay.json") + " -vet=off -count=1 -timeout 25m github.com/yandex/pandora/... 2>&1"
	var cmd *exec.Cmd
	if _, err := exec.LookPath("unshare"); err == nil {
		// private network namespace: the acceptance tests listen on fixed ports
		cmd = exec.Command("unshare", "-rn", "sh", "-c", "ip link set lo up; "+shell)
	} else {
		cmd = exec.Command("sh", "-c", shell)
	}
	cmd.Dir = filepath.Join(verifDir, "sim")
	cmd.Env = goEnv()
	out, _ := cmd.CombinedOutput()
	okN, failN := 0, 0
	var failed []string
	for _, l := range strings.Split(string(out), "\n") {
		switch {
		case strings.HasPrefix(l, "ok "):
			okN++
		case strings.HasPrefix(l, "FAIL") || strings.HasPrefix(l, "--- FAIL"):
			failN++
			failed = append(failed, strings.TrimSpace(l))
		}
	}
	msg := fmt.Sprintf("%d packages ok, %d failures on the instrumented tree in %.0fs", okN, failN, time.Since(start).Seconds())
	if failN > 0 || okN == 0 {
		return false, msg + ": " + strings.Join(failed, "; ") + "\n" + cut(string(out), 4000)
	}
	os.MkdirAll(cacheDir, 0o755)
	os.WriteFile(cacheFile, []byte(msg), 0o644)
	return true, msg
}
