package main

// per-property run budgets; rule and component lists come from the worker's
// registry (reported in its summary).
var props = map[string]propConf{
	"C01": {Level: "exploration", Quick: 3000, Thorough: 4000000, ThoroughS: 1200},
	"C02": {Level: "exploration", Quick: 16000, Thorough: 12000000, ThoroughS: 1500},
	"C03": {Level: "exploration", Quick: 3000, Thorough: 2000000, ThoroughS: 1500},
	"C04": {Level: "exploration", Quick: 3000, Thorough: 2000000, ThoroughS: 1500},
	"C05": {Level: "fault_enumeration", Quick: 5000, Thorough: 10000000, ThoroughS: 1500},
	"C06": {Level: "fault_enumeration", Quick: 2000, Thorough: 500000, ThoroughS: 1500},
	"C07": {Level: "exploration", Quick: 10000, Thorough: 12000000, ThoroughS: 1200},
	"C08": {Level: "exploration", Quick: 12000, Thorough: 8000000, ThoroughS: 1500},
	"C09": {Level: "exploration", Quick: 3000, Thorough: 4000000, ThoroughS: 1500},
	"C10": {Level: "exploration", Quick: 3000, Thorough: 2000000, ThoroughS: 1500},
	"C11": {Level: "exploration", Quick: 600, Thorough: 800000, ThoroughS: 1800, Race: true, Chunk: 50},
	"C12": {Level: "exploration", Quick: 2000, Thorough: 2000000, ThoroughS: 1200},
	"C13": {Level: "exploration", Quick: 10000, Thorough: 20000000, ThoroughS: 1500},
	"C14": {Level: "exploration", Quick: 3000, Thorough: 20000000, ThoroughS: 1200},
	"C15": {Level: "exploration", Quick: 2000, Thorough: 2000000, ThoroughS: 1500},
	"C19": {Level: "fault_enumeration", Quick: 3000, Thorough: 3000000, ThoroughS: 1500},
	"C20": {Level: "exploration", Quick: 2000, Thorough: 2000000, ThoroughS: 1500},
}
