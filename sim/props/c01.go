package props

import (
	"fmt"
	"math"
	"math/big"
	"sync" // nosim
	"time"

	"github.com/yandex/pandora/core"
	"github.com/yandex/pandora/core/config"
	"github.com/yandex/pandora/core/coreutil"
	coreimport "github.com/yandex/pandora/core/import"

	"verifsim/ref"
	"verifsim/simfs"
	"verifsim/simrt"
)

// process-wide pandora registrations with a switchable disk
var (
	importOnce sync.Once // nosim
	GlobalFs   = simfs.NewSwitch()
)

func ensureImport() {
	importOnce.Do(func() {
		coreimport.Import(GlobalFs)
		importExtra()
	})
}

// importExtra is extended by the files that need the http/grpc/scenario plugins.
var importExtra = func() {}

// ---- C01: RPS schedules realise the configured load profile ----

var c01Rates = []float64{0, 0.001, 0.3, 0.5, 1, 2.5, 7, 10, 99.9, 1000, 12345.678}
var c01Durs = []time.Duration{time.Millisecond, 10 * time.Millisecond, 500 * time.Millisecond, 999 * time.Millisecond,
	time.Second, 1500 * time.Millisecond, 2718 * time.Millisecond, 10 * time.Second, 90 * time.Second, time.Hour, 2 * time.Second, 7300 * time.Millisecond,
	// durations with a fraction of a millisecond (validation asks for 1 ms at least, nothing more)
	1500 * time.Microsecond, 2500 * time.Microsecond, time.Second + 500*time.Microsecond, 7300*time.Millisecond + 250*time.Microsecond}

func c01GenProfile(w *simrt.Stream) ref.Profile {
	for {
		var p ref.Profile
		switch w.Draw(4) {
		case 0:
			p = ref.Profile{Kind: "const", Ops: c01Rates[w.Draw(len(c01Rates))], Dur: c01Durs[w.Draw(len(c01Durs))]}
			p.Desc = fmt.Sprintf("const(%v, %v)", p.Ops, p.Dur)
		case 1:
			p = ref.Profile{Kind: "line", From: c01Rates[w.Draw(len(c01Rates))], To: c01Rates[w.Draw(len(c01Rates))], Dur: c01Durs[w.Draw(len(c01Durs))]}
			p.Desc = fmt.Sprintf("line(%v, %v, %v)", p.From, p.To, p.Dur)
		case 2:
			from := c01Rates[w.Draw(6)]
			to := from + float64(w.Draw(6))
			if w.Draw(2) == 0 {
				// the fractional parts of from and to are independent (from 0.5 to 2, from 1.5 to 3.2, ...)
				to = math.Floor(from) + float64(1+w.Draw(6)) + []float64{0, 0, 0.2, 0.5, 0.9}[w.Draw(5)]
			}
			p = ref.Profile{Kind: "step", From: from, To: to, Step: int64(1 + w.Draw(3)), Dur: c01Durs[w.Draw(len(c01Durs))]}
			p.Desc = fmt.Sprintf("step(%v, %v, %d, %v)", p.From, p.To, p.Step, p.Dur)
		default:
			p = ref.Profile{Kind: "once", Times: int64(1 + w.Draw(300))}
			p.Desc = fmt.Sprintf("once(%d)", p.Times)
		}
		// keep the expected token count drainable
		tot := new(big.Float)
		for _, pt := range p.Parts() {
			tot.Add(tot, pt.Integral())
		}
		if f, _ := tot.Float64(); f <= 60000 {
			return p
		}
	}
}

func c01Config(p ref.Profile) map[string]interface{} {
	switch p.Kind {
	case "const":
		return map[string]interface{}{"type": "const", "ops": p.Ops, "duration": p.Dur.String()}
	case "line":
		return map[string]interface{}{"type": "line", "from": p.From, "to": p.To, "duration": p.Dur.String()}
	case "step":
		return map[string]interface{}{"type": "step", "from": p.From, "to": p.To, "step": p.Step, "duration": p.Dur.String()}
	default:
		return map[string]interface{}{"type": "once", "times": p.Times}
	}
}

func c01Decode(p ref.Profile) (core.Schedule, error) {
	ensureImport()
	var conf struct {
		S core.Schedule `config:"s"`
	}
	err := config.DecodeAndValidate(map[string]interface{}{"s": c01Config(p)}, &conf)
	return conf.S, err
}

// c01Expect is the reference token list (offsets from the profile start) and total duration.
type c01Expect struct {
	Offs    []*big.Float // exact real nanoseconds
	NearInt []bool       // the last token of a part exists only on one side of a float rounding
	Dur     time.Duration
	Opt     []bool // token is optional (count relaxation at a near-integer integral)
}

func c01Reference(p ref.Profile) c01Expect {
	var e c01Expect
	var base time.Duration
	for _, pt := range p.Parts() {
		// with a near-integer integral R the count may legitimately be R-1 or R: token R-1 is optional
		min, max := pt.CountRange()
		for k := int64(0); k < max; k++ {
			t := pt.TokenNS(k)
			t.Add(t, new(big.Float).SetInt64(int64(base)))
			e.Offs = append(e.Offs, t)
			e.Opt = append(e.Opt, k >= min)
		}
		base += pt.D
	}
	e.Dur = base
	return e
}

func init() {
	Register(&Prop{
		ID:    "C01",
		Run:   runC01,
		Level: "exploration",
		Rule: "a run = one drawn profile (const/line/step/once, rates 0..12345.678, durations 1ms..1h biased to non-whole seconds) decoded through the real config/plugin path; " +
			"(A) a sequential drain of every token compared with the arbitrary-precision reference, (B) for profiles of <=400 tokens 1-3 waiter tasks on the simulated clock comparing release instants with token times, started explicitly or by the first Next; " +
			"non-trivial = the profile has at least one token and a fractional-second or non-unit parameter; distinct = distinct (profile description, mode) pair hashed together with the schedule trace",
		Components: map[string]string{
			"core/schedule (const, line, step, once, do_at, composite)": "real",
			"core/config + core/plugin + core/import decode path":       "real",
			"core/coreutil.Waiter":             "real",
			"reference integral / token times": "own model in math/big (verifsim/ref)",
			"clock":                            "simulated (synctest)",
		},
	})
}

func c01CmpTime(got time.Duration, want *big.Float) (bool, float64) {
	w, _ := want.Float64()
	diff := float64(got) - w
	if diff < 0 {
		diff = -diff
	}
	tol := 1000 + 1e-9*w
	return diff <= tol, diff
}

func runC01(r *R) {
	w := r.W
	p := c01GenProfile(w)
	exp := c01Reference(p)
	mode := w.Draw(3) // 0: drain only, 1: waiter explicit start, 2: waiter, started by first Next
	nwait := 1 + w.Draw(3)
	r.Sample(map[string]any{"profile": p.Desc, "reference_tokens": len(exp.Offs), "mode": mode, "waiters": nwait})
	s, err := c01Decode(p)
	if err != nil {
		r.Fail("decode-error/"+p.Kind, "valid profile %s rejected: %v", p.Desc, err)
		return
	}
	if len(exp.Offs) > 0 {
		r.NonTrivial()
	}
	// ---- (A) sequential drain against the reference ----
	t0 := time.Unix(1_700_000_000, 0)
	if left := s.Left(); !c01CountOK(left, exp) {
		r.Fail("count/"+p.Kind+c01Frac(p), "Left() before start = %d, reference integral gives %s tokens (profile %s)", left, c01CountDesc(exp), p.Desc)
		return
	}
	s.Start(t0)
	k := 0 // index into reference
	got := 0
	for {
		tk, ok := s.Next()
		off := tk.Sub(t0)
		if !ok {
			if off != exp.Dur {
				r.Fail("finish-time/"+p.Kind+c01Frac(p), "exhausted profile %s reports finish %v, want start+%v", p.Desc, off, exp.Dur)
			}
			break
		}
		got++
		if off < 0 || off > exp.Dur {
			r.Fail("token-outside-profile/"+p.Kind+c01Frac(p), "token %d of %s at %v is outside [0, %v]", got-1, p.Desc, off, exp.Dur)
			return
		}
		// match against the reference, skipping optional reference tokens
		matched := false
		for k < len(exp.Offs) {
			if ok, _ := c01CmpTime(off, exp.Offs[k]); ok {
				matched = true
				k++
				break
			}
			if exp.Opt[k] {
				k++
				continue
			}
			break
		}
		if !matched {
			want := "none (profile has no more tokens)"
			if k < len(exp.Offs) {
				f, _ := exp.Offs[k].Float64()
				want = time.Duration(f).String()
			}
			r.Fail("token-time/"+p.Kind+c01Frac(p), "token %d of %s is scheduled at %v; the integral of the configured rate reaches it at %s", got-1, p.Desc, off, want)
			return
		}
		if got > 200000 {
			r.Fail("count/"+p.Kind+c01Frac(p), "profile %s hands out more than 200000 tokens, reference %s", p.Desc, c01CountDesc(exp))
			return
		}
	}
	for ; k < len(exp.Offs); k++ {
		if !exp.Opt[k] {
			f, _ := exp.Offs[k].Float64()
			r.Fail("count/"+p.Kind+c01Frac(p), "profile %s ended after %d tokens; reference has a token at %v (%s tokens)", p.Desc, got, time.Duration(f), c01CountDesc(exp))
			return
		}
	}
	if r.Failed() || mode == 0 || len(exp.Offs) > 400 {
		return
	}
	// ---- (B) waiters on the simulated clock ----
	type rel struct {
		tok time.Duration
		at  time.Duration
	}
	var rels []rel
	var simStart time.Time
	horizon := exp.Dur + time.Hour
	res := r.Sim(simrt.Config{Horizon: horizon, Grace: time.Millisecond, MaxSteps: 400000}, true, func() {
		s2, err := c01Decode(p)
		if err != nil {
			return
		}
		simStart = time.Now()
		if mode == 1 {
			s2.Start(simStart)
		}
		done := make(chan struct{}, nwait)
		for i := 0; i < nwait; i++ {
			go func() {
				rec := &c01Rec{Schedule: s2}
				wt := coreutil.NewWaiter(rec)
				for wt.Wait(ctxBackground) {
					rels = append(rels, rel{tok: rec.last().Sub(simStart), at: time.Since(simStart)})
				}
				done <- struct{}{}
			}()
		}
		for i := 0; i < nwait; i++ {
			<-done
		}
	})
	if res.Class != simrt.OK || r.Failed() {
		return
	}
	if len(rels) != got {
		r.Fail("waiter/count/"+p.Kind, "%d waiter(s) released %d operations, the drained twin of %s has %d", nwait, len(rels), p.Desc, got)
	}
	for i, x := range rels {
		if x.at < x.tok {
			r.Fail("waiter/early-release/"+p.Kind, "an operation (#%d) of %s was released at %v, before its token time %v", i, p.Desc, x.at, x.tok)
			break
		}
		if x.at != x.tok {
			// waiters do no work between tokens, so a token is never drawn after its time:
			// each operation must be released exactly at its token time
			r.Fail("waiter/late-release/"+p.Kind, "an operation (#%d) of %s was released at %v although its token time is %v and the waiters are idle", i, p.Desc, x.at, x.tok)
			break
		}
	}
}

var ctxBackground = backgroundCtx()

// c01Rec (one per waiter, around the shared schedule) records the last token its waiter drew.
type c01Rec struct {
	core.Schedule
	mu simrt.HMutex
	l  time.Time
}

func (c *c01Rec) Next() (time.Time, bool) {
	t, ok := c.Schedule.Next()
	c.mu.Lock()
	c.l = t
	c.mu.Unlock()
	return t, ok
}

func (c *c01Rec) last() time.Time {
	c.mu.Lock()
	defer c.mu.Unlock()
	return c.l
}

func c01Frac(p ref.Profile) string {
	if p.Kind == "once" {
		return ""
	}
	if p.Dur%time.Second != 0 {
		if p.Dur < time.Second {
			return "/sub-second-duration"
		}
		return "/fractional-duration"
	}
	return "/whole-seconds"
}

func c01CountOK(left int, e c01Expect) bool {
	min, max := 0, len(e.Offs)
	for _, o := range e.Opt {
		if !o {
			min++
		}
	}
	return left >= min && left <= max
}

func c01CountDesc(e c01Expect) string {
	min := 0
	for _, o := range e.Opt {
		if !o {
			min++
		}
	}
	if min == len(e.Offs) {
		return fmt.Sprint(min)
	}
	return fmt.Sprintf("%d..%d", min, len(e.Offs))
}
