package props

import (
	"fmt"
	"os"
	"sort"
	"strings"
	"time"

	"github.com/anishathalye/porcupine"
	"github.com/yandex/pandora/core"
	"github.com/yandex/pandora/core/coreutil"
	"github.com/yandex/pandora/core/schedule"

	"verifsim/simrt"
)

// ---- C02: schedule token contract ----
//
// Workload: a random schedule tree, 1-4 caller tasks with drawn Next/Left
// sequences and pauses. Oracle: the recorded history must be linearizable
// (porcupine) against a sequential model of the flattened part list; the
// leaves' token offsets come from a sequentially drained twin of each leaf
// (the content of a leaf is C01's subject, not C02's), the composition,
// exactly-once, Left and finish-time rules are the model's own.

type c02Leaf struct {
	Kind    string        `json:"kind"`
	N       int64         `json:"n,omitempty"`
	A, B    float64       `json:"-"`
	D       time.Duration `json:"-"`
	Desc    string        `json:"desc"`
	mk      func() core.Schedule
	unknown bool // unlimited
}

// model part: a finite list of offsets + duration, or an unlimited window
type c02Part struct {
	Unlimited bool
	Offs      []time.Duration
	Dur       time.Duration
	Desc      string
}

type c02Node struct {
	leaf *c02Leaf
	kids []*c02Node
}

var c02Durs = []time.Duration{time.Millisecond, 500 * time.Millisecond, time.Second, 1500 * time.Millisecond, 2 * time.Second}
var c02Rates = []float64{0, 0.5, 1, 2, 3.5, 7}

func c02GenLeaf(w *simrt.Stream) (*c02Leaf, []c02Part) {
	twin := func(mk func() core.Schedule, desc string) c02Part {
		s := mk()
		t0 := time.Unix(1000, 0)
		s.Start(t0)
		var offs []time.Duration
		var fin time.Duration
		for i := 0; i < 10000; i++ {
			tk, ok := s.Next()
			if !ok {
				fin = tk.Sub(t0)
				break
			}
			offs = append(offs, tk.Sub(t0))
		}
		return c02Part{Offs: offs, Dur: fin, Desc: desc}
	}
	switch w.Draw(7) {
	case 0:
		n := int64(w.Draw(4))
		l := &c02Leaf{Kind: "once", Desc: fmt.Sprintf("once(%d)", n)}
		l.mk = func() core.Schedule { return schedule.NewOnce(n) }
		return l, []c02Part{twin(l.mk, l.Desc)}
	case 1:
		ops := c02Rates[w.Draw(len(c02Rates))]
		d := c02Durs[w.Draw(len(c02Durs))]
		l := &c02Leaf{Kind: "const", Desc: fmt.Sprintf("const(%v,%v)", ops, d)}
		l.mk = func() core.Schedule { return schedule.NewConst(ops, d) }
		return l, []c02Part{twin(l.mk, l.Desc)}
	case 2:
		a := c02Rates[w.Draw(len(c02Rates))]
		b := c02Rates[w.Draw(len(c02Rates))]
		d := c02Durs[2+w.Draw(2)*2] // whole seconds only: fractional-second lines are C01's known finding
		l := &c02Leaf{Kind: "line", Desc: fmt.Sprintf("line(%v,%v,%v)", a, b, d)}
		l.mk = func() core.Schedule { return schedule.NewLine(a, b, d) }
		return l, []c02Part{twin(l.mk, l.Desc)}
	case 3:
		d := c02Durs[w.Draw(len(c02Durs))]
		l := &c02Leaf{Kind: "unlimited", Desc: fmt.Sprintf("unlimited(%v)", d), unknown: true}
		l.mk = func() core.Schedule { return schedule.NewUnlimited(d) }
		return l, []c02Part{{Unlimited: true, Dur: d, Desc: l.Desc}}
	case 4:
		// step(from,to,step,d): one const per level (documented definition)
		from := float64(w.Draw(3))
		to := from + float64(w.Draw(3))
		st := int64(1 + w.Draw(2))
		d := c02Durs[w.Draw(len(c02Durs))]
		l := &c02Leaf{Kind: "step", Desc: fmt.Sprintf("step(%v,%v,%d,%v)", from, to, st, d)}
		l.mk = func() core.Schedule { return schedule.NewStep(from, to, st, d) }
		var parts []c02Part
		for lv := from; lv <= to; lv += float64(st) {
			lv := lv
			parts = append(parts, twin(func() core.Schedule { return schedule.NewConst(lv, d) }, fmt.Sprintf("const(%v,%v)", lv, d)))
		}
		return l, parts
	case 5:
		// instance_step(from,to,step,d): once(from) then repeated (pause d, once(step))
		from := int64(w.Draw(3))
		to := from + int64(w.Draw(4))
		st := int64(1 + w.Draw(2))
		d := c02Durs[w.Draw(len(c02Durs))]
		l := &c02Leaf{Kind: "instance_step", Desc: fmt.Sprintf("instance_step(%d,%d,%d,%v)", from, to, st, d)}
		l.mk = func() core.Schedule { return schedule.NewInstanceStep(from, to, st, d) }
		parts := []c02Part{{Offs: make([]time.Duration, from), Desc: fmt.Sprintf("once(%d)", from)}}
		for i := from + st; i <= to; i += st {
			parts = append(parts, c02Part{Dur: d, Desc: fmt.Sprintf("pause(%v)", d)})
			parts = append(parts, c02Part{Offs: make([]time.Duration, st), Desc: fmt.Sprintf("once(%d)", st)})
		}
		return l, parts
	default:
		l := &c02Leaf{Kind: "empty", Desc: "composite()"}
		l.mk = func() core.Schedule { return schedule.NewComposite() }
		return l, []c02Part{{Desc: "empty"}}
	}
}

// c02GenTree draws a tree and returns a constructor, the flattened model and a description.
func c02GenTree(w *simrt.Stream, depth int, leaves *int) (func() core.Schedule, []c02Part, string) {
	if depth >= 3 || *leaves >= 5 || (depth > 0 && w.Draw(3) != 0) || (depth == 0 && w.Draw(6) == 5) {
		*leaves++
		l, parts := c02GenLeaf(w)
		return l.mk, parts, l.Desc
	}
	n := 1 + w.Draw(4)
	if depth == 0 && n < 2 {
		n = 2
	}
	var mks []func() core.Schedule
	var parts []c02Part
	var descs []string
	for i := 0; i < n; i++ {
		mk, p, d := c02GenTree(w, depth+1, leaves)
		mks = append(mks, mk)
		parts = append(parts, p...)
		descs = append(descs, d)
	}
	return func() core.Schedule {
		var ss []core.Schedule
		for _, mk := range mks {
			ss = append(ss, mk())
		}
		return schedule.NewComposite(ss...)
	}, parts, "composite(" + strings.Join(descs, ", ") + ")"
}

type c02Op struct {
	Kind   string // next | left
	Client int
	Call   uint64
	Ret    uint64
	CallT  time.Duration // since t0
	RetT   time.Duration
	Tok    time.Duration // since t0 (Next)
	OK     bool
	Left   int
}

type c02In struct {
	Kind        string
	CallT, RetT time.Duration
}
type c02Out struct {
	Tok  time.Duration
	OK   bool
	Left int
}

// c02Alt is one possible abstract state: cursor into the flattened parts and
// the start instant of part 0. An un-started schedule takes its start from the
// clock inside the first operation that starts it: always the first Next, and
// possibly an earlier Left (pandora's composite may advance - and thereby start -
// nested schedules inside Left; the property does not regulate that), so the
// model keeps the set of alternatives consistent with the history so far.
type c02Alt struct {
	Started bool
	S0      time.Duration
	P, I    int
}

// c02State is the (sorted, deduplicated) set of alternatives, encoded as a
// comparable string for porcupine.
type c02State string

func c02Enc(alts []c02Alt) c02State {
	sort.Slice(alts, func(i, j int) bool {
		a, b := alts[i], alts[j]
		if a.Started != b.Started {
			return !a.Started
		}
		if a.S0 != b.S0 {
			return a.S0 < b.S0
		}
		if a.P != b.P {
			return a.P < b.P
		}
		return a.I < b.I
	})
	var sb strings.Builder
	var last c02Alt
	for k, a := range alts {
		if k > 0 && a == last {
			continue
		}
		last = a
		fmt.Fprintf(&sb, "%v,%d,%d,%d;", a.Started, int64(a.S0), a.P, a.I)
	}
	return c02State(sb.String())
}

func c02Dec(st c02State) []c02Alt {
	var out []c02Alt
	for _, f := range strings.Split(string(st), ";") {
		if f == "" {
			continue
		}
		var a c02Alt
		var s0 int64
		var started string
		q := strings.Split(f, ",")
		started = q[0]
		fmt.Sscan(q[1], &s0)
		fmt.Sscan(q[2], &a.P)
		fmt.Sscan(q[3], &a.I)
		a.Started = started == "true"
		a.S0 = time.Duration(s0)
		out = append(out, a)
	}
	return out
}

type c02Model struct {
	parts []c02Part
	// explicit start offset (>=0) or -1 when the schedule is started by its first operation
	start time.Duration
}

// partStart returns the start offset of part q given S0.
func (m *c02Model) partStart(s0 time.Duration, q int) time.Duration {
	t := s0
	for i := 0; i < q; i++ {
		t += m.parts[i].Dur
	}
	return t
}

// nextAlt validates a Next result against one started alternative.
func (m *c02Model) nextAlt(st c02Alt, in c02In, out c02Out) (bool, c02Alt) {
	last := len(m.parts) - 1
	p, i := st.P, st.I
	for {
		part := m.parts[p]
		ps := m.partStart(st.S0, p)
		if part.Unlimited {
			fin := ps + part.Dur
			// token = the clock reading inside the call, but never before the part's start
			if out.OK && out.Tok < fin && ((out.Tok >= in.CallT && out.Tok <= in.RetT && out.Tok >= ps) || (out.Tok == ps && in.CallT <= ps)) {
				return true, c02Alt{Started: true, S0: st.S0, P: p, I: 0}
			}
			// otherwise it must be finished within the call
			if fin > in.RetT {
				return false, st
			}
		} else if i < len(part.Offs) {
			// this part must deliver
			if out.OK && out.Tok == ps+part.Offs[i] {
				return true, c02Alt{Started: true, S0: st.S0, P: p, I: i + 1}
			}
			return false, st
		}
		if p == last {
			fin := ps + part.Dur
			if !out.OK && out.Tok == fin {
				return true, c02Alt{Started: true, S0: st.S0, P: p, I: i}
			}
			return false, st
		}
		p++
		i = 0
	}
}

// leftAlt validates a Left result against one alternative.
func (m *c02Model) leftAlt(st c02Alt, in c02In, out c02Out) bool {
	// exact remaining over finite parts from the cursor; unlimited parts at or after
	// the cursor make the total unknown while they have not finished.
	exact := 0
	unknownAtCall := false // some unlimited part ahead not finished at the call instant (or not started / not reached)
	unknownAtRet := false  // ... not finished even at return
	for q := st.P; q < len(m.parts); q++ {
		part := m.parts[q]
		if part.Unlimited {
			fin := m.partStart(st.S0, q) + part.Dur
			if !st.Started || fin > in.CallT || q > st.P {
				// (an unlimited part that has not been reached cannot know that it is over)
				unknownAtCall = true
			}
			if !st.Started || fin > in.RetT {
				unknownAtRet = true
			}
			continue
		}
		n := len(part.Offs)
		if q == st.P {
			n -= st.I
			if n < 0 {
				n = 0
			}
		}
		exact += n
	}
	if out.Left < 0 {
		return unknownAtCall
	}
	if unknownAtRet {
		return false // a non-negative answer while an unlimited part is still running cannot be exact
	}
	return out.Left == exact
}

func (m *c02Model) step(state c02State, in c02In, out c02Out) (bool, c02State) {
	var succ []c02Alt
	for _, a := range c02Dec(state) {
		cands := []c02Alt{a}
		if !a.Started {
			// the operation may be the one that starts the schedule, at an instant inside the call
			cands = nil
			if in.Kind == "left" {
				cands = append(cands, a)
			}
			cands = append(cands, c02Alt{Started: true, S0: in.CallT}, c02Alt{Started: true, S0: in.RetT})
		}
		for _, c := range cands {
			if in.Kind == "next" {
				if ok, n := m.nextAlt(c, in, out); ok {
					succ = append(succ, n)
				}
			} else if m.leftAlt(c, in, out) {
				succ = append(succ, c)
			}
		}
	}
	if len(succ) == 0 {
		return false, state
	}
	return true, c02Enc(succ)
}

func (m *c02Model) init() c02State {
	if m.start >= 0 {
		return c02Enc([]c02Alt{{Started: true, S0: m.start}})
	}
	return c02Enc([]c02Alt{{}})
}

func (m *c02Model) porcupine() porcupine.Model {
	return porcupine.Model{
		Init: func() interface{} { return m.init() },
		Step: func(state, input, output interface{}) (bool, interface{}) {
			ok, ns := m.step(state.(c02State), input.(c02In), output.(c02Out))
			return ok, ns
		},
		Equal: func(a, b interface{}) bool { return a.(c02State) == b.(c02State) },
		DescribeOperation: func(input, output interface{}) string {
			in := input.(c02In)
			out := output.(c02Out)
			if in.Kind == "next" {
				return fmt.Sprintf("Next@[%v,%v] -> (%v,%v)", in.CallT, in.RetT, out.Tok, out.OK)
			}
			return fmt.Sprintf("Left@[%v,%v] -> %d", in.CallT, in.RetT, out.Left)
		},
	}
}

func init() {
	Register(&Prop{
		ID:    "C02",
		Run:   runC02,
		Level: "exploration",
		Rule: "a run = one drawn schedule tree (<=3 levels, <=6 leaves of once/const/line/step/instance_step/unlimited/empty), 1-4 caller tasks with drawn Next/Left sequences (<=12 ops each) and pauses, executed under one seeded interleaving; " +
			"non-trivial = at least two operations of different callers overlapped (one was invoked before the other returned); distinct = distinct schedule-trace hash (sequence of (task, site, simulated instant) decisions)",
		Components: map[string]string{
			"core/schedule (composite, do_at, unlimited, start_sync, instance_step, step, const, line, once)": "real",
			"core/coreutil.NewCallbackOnFinishSchedule":                                                       "real",
			"callers": "harness tasks", "clock": "simulated (synctest)", "goroutine scheduling": "simulated (seeded scheduler over generated yield points)",
		},
	})
}

func runC02(r *R) {
	w := r.W
	leaves := 0
	mk, parts, desc := c02GenTree(w, 0, &leaves)
	ncall := 1 + w.Draw(4)
	withCB := w.Bool()
	explicitStart := w.Draw(3) != 0
	type plan struct {
		kinds  []int // 0 next, 1 left
		pauses []time.Duration
	}
	pauseTab := []time.Duration{0, 0, 0, time.Millisecond, 300 * time.Millisecond, time.Second, 1700 * time.Millisecond}
	plans := make([]plan, ncall)
	for c := range plans {
		n := 1 + w.Draw(12)
		for i := 0; i < n; i++ {
			plans[c].kinds = append(plans[c].kinds, w.Biased(2, 2, 3))
			plans[c].pauses = append(plans[c].pauses, pauseTab[w.Draw(len(pauseTab))])
		}
	}
	// an un-started schedule takes its start from the clock inside the first Next; keep
	// operations instantaneous there so that the start instant is unambiguous for the model
	stalls := explicitStart && w.Draw(4) == 0

	var (
		ops      []c02Op
		cbCount  int
		panicked string
		t0       time.Time
	)
	// only one task runs between two scheduling points, so plain appends are safe
	record := func(o c02Op) { ops = append(ops, o) }
	res := r.Sim(simrt.Config{Horizon: 10 * time.Minute, Grace: time.Second, Stalls: stalls, StallMax: 2 * time.Second, MaxSteps: 100000}, false, func() {
		t0 = time.Now()
		s := mk()
		if withCB {
			s = coreutil.NewCallbackOnFinishSchedule(s, func() { cbCount++ })
		}
		if explicitStart {
			s.Start(t0)
		}
		done := make(chan int, ncall)
		for c := 0; c < ncall; c++ {
			c := c
			go func() {
				defer func() {
					if p := recover(); p != nil {
						panicked = fmt.Sprint(p)
					}
					done <- c
				}()
				for i, k := range plans[c].kinds {
					if d := plans[c].pauses[i]; d > 0 {
						time.Sleep(d)
					}
					o := c02Op{Client: c, Call: simrt.Seq(), CallT: time.Since(t0)}
					if k == 0 {
						o.Kind = "next"
						tk, ok := s.Next()
						o.Tok, o.OK = tk.Sub(t0), ok
					} else {
						o.Kind = "left"
						o.Left = s.Left()
					}
					o.RetT = time.Since(t0)
					o.Ret = simrt.Seq()
					record(o)
				}
			}()
		}
		for c := 0; c < ncall; c++ {
			<-done
		}
	})
	r.Sample(map[string]any{"schedule": desc, "callers": ncall, "explicit_start": explicitStart, "callback": withCB, "ops": len(ops)})
	if panicked != "" {
		// (other callers may then be blocked on the lock the panicking one held: the hang is secondary)
		r.Fail("panic-in-call/"+panicked, "a Next/Left call panicked: %s (schedule %s)", panicked, desc)
		return
	}
	r.ReportInfra(res)
	if r.Failed() {
		return
	}
	// overlap => non-trivial
	sort.Slice(ops, func(i, j int) bool { return ops[i].Call < ops[j].Call })
	for i := 1; i < len(ops); i++ {
		for j := 0; j < i; j++ {
			if ops[j].Client != ops[i].Client && ops[j].Ret > ops[i].Call {
				r.NonTrivial()
			}
		}
	}
	m := &c02Model{parts: parts, start: -1}
	if explicitStart {
		m.start = 0
	}
	// direct invariants (cheap, independent of the linearizability search)
	hasUnl := false
	total := 0
	for _, p := range parts {
		if p.Unlimited {
			hasUnl = true
		}
		total += len(p.Offs)
	}
	nOK, sawEnd, sawZero := 0, false, false
	perClient := map[int]time.Duration{}
	var finTok []time.Duration
	for _, o := range ops {
		if o.Kind == "next" {
			if o.OK {
				nOK++
			} else {
				sawEnd = true
				finTok = append(finTok, o.Tok)
			}
		} else if o.Left == 0 {
			sawZero = true
		}
	}
	// per-caller order (program order of each caller = order of its Call stamps)
	for _, o := range ops {
		if o.Kind != "next" {
			continue
		}
		if last, ok := perClient[o.Client]; ok && o.Tok < last {
			r.Fail("order/per-caller-decrease", "caller %d got %v after %v (schedule %s)", o.Client, o.Tok, last, desc)
		}
		perClient[o.Client] = o.Tok
	}
	if !hasUnl && nOK > total {
		r.Fail("exactly-once/too-many-tokens", "%d tokens handed out, schedule %s has %d", nOK, desc, total)
	}
	if !hasUnl && sawEnd && nOK != total {
		r.Fail("exactly-once/lost-tokens", "a caller saw the end after %d tokens were handed out, schedule %s has %d", nOK, desc, total)
	}
	for _, f := range finTok {
		if f != finTok[0] {
			r.Fail("finish/not-stable", "finish times differ after exhaustion: %v vs %v (schedule %s)", f, finTok[0], desc)
		}
	}
	if withCB {
		if cbCount > 1 {
			r.Fail("callback/more-than-once", "on-finish callback ran %d times", cbCount)
		}
		if (sawEnd || sawZero) && cbCount != 1 {
			r.Fail("callback/missing", "a caller observed the end (Next !ok or Left()==0) but the on-finish callback ran %d times", cbCount)
		}
	}
	if r.Failed() {
		return
	}
	// linearizability against the sequential model
	var pops []porcupine.Operation
	for _, o := range ops {
		pops = append(pops, porcupine.Operation{
			ClientId: o.Client,
			Input:    c02In{Kind: o.Kind, CallT: o.CallT, RetT: o.RetT},
			Call:     int64(o.Call),
			Output:   c02Out{Tok: o.Tok, OK: o.OK, Left: o.Left},
			Return:   int64(o.Ret),
		})
	}
	switch porcupine.CheckOperationsTimeout(m.porcupine(), pops, 20*time.Second) {
	case porcupine.Illegal:
		var b strings.Builder
		for _, o := range ops {
			if o.Kind == "next" {
				fmt.Fprintf(&b, " c%d[%d,%d]Next=(%v,%v)", o.Client, o.Call, o.Ret, o.Tok, o.OK)
			} else {
				fmt.Fprintf(&b, " c%d[%d,%d]Left=%d", o.Client, o.Call, o.Ret, o.Left)
			}
		}
		r.Fail("not-linearizable/"+c02Classify(m, ops), "history is not linearizable against the schedule model; schedule %s started=%v; history:%s", desc, explicitStart, b.String())
	case porcupine.Unknown:
		r.Note("porcupine-timeout")
	default:
		r.Note("porcupine-ok")
	}
}

// c02Classify gives a coarse, stable reason for the signature: it replays the
// history sequentially in return order and names the first operation kind the
// model rejects.
func c02Classify(m *c02Model, ops []c02Op) string {
	st := m.init()
	sorted := append([]c02Op(nil), ops...)
	sort.Slice(sorted, func(i, j int) bool { return sorted[i].Ret < sorted[j].Ret })
	for _, o := range sorted {
		in := c02In{Kind: o.Kind, CallT: o.CallT, RetT: o.RetT}
		out := c02Out{Tok: o.Tok, OK: o.OK, Left: o.Left}
		ok, ns := m.step(st, in, out)
		if !ok {
			if os.Getenv("VERIF_DEBUG") != "" {
				fmt.Fprintf(os.Stderr, "model rejects %+v in state %s\n", o, st)
			}
			if o.Kind == "next" {
				return "next"
			}
			if o.Left == 0 {
				return "left-zero-with-tokens"
			}
			if o.Left < 0 {
				return "left-negative-but-known"
			}
			return "left-inexact"
		}
		st = ns
	}
	return "interleaving"
}
