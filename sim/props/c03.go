package props

import (
	"fmt"
	"time"

	"verifsim/stubs"
)

// ---- C03: engine shot accounting ----

func init() {
	Register(&Prop{
		ID:    "C03",
		Run:   runC03,
		Level: "exploration",
		Rule: "a run = one pool (startup profile 1-8 instances, finite RPS profile <=300 tokens shared or per instance, num provider bound 0..400, discard_overflow on/off, scripted shot durations) executed by the real engine under one seeded interleaving (optionally with scheduler stalls); " +
			"non-trivial = at least two instances were started and at least one operation was fired or discarded; distinct = distinct schedule-trace hash",
		Components: map[string]string{
			"core/engine (Engine, instancePool, instance)": "real", "core/coreutil.Waiter": "real", "core/schedule/*": "real (decoded through config/plugin)",
			"core/provider.num": "real, wrapped by a recorder", "core/aggregator.discard": "real, wrapped by a recorder", "gun": "stub (scripted shot durations)",
			"clock": "simulated", "goroutine scheduling": "simulated",
		},
	})
}

func genEngSpecC03(r *R) engSpec {
	w := r.W
	sp := engSpec{GunErrAt: -1}
	sp.Startup = genStartup(w, 8)
	sp.RPS = genRPS(w, 300)
	sp.PerInstance = w.Draw(3) == 0
	switch w.Draw(4) {
	case 0:
		sp.Ammo = 0
	case 1:
		sp.Ammo = 1 + w.Draw(400)
	case 2:
		// around the token count: the interesting boundary
		t := sp.RPS.Tokens
		sp.Ammo = t - 3 + w.Draw(12)
		if sp.Ammo < 1 {
			sp.Ammo = 1
		}
	default:
		sp.Ammo = 1 + w.Draw(40)
	}
	sp.Discard = w.Bool()
	interval := time.Second
	if sp.RPS.Tokens > 1 && sp.RPS.Dur > 0 {
		interval = sp.RPS.Dur / time.Duration(sp.RPS.Tokens)
	}
	sp.Shots = genShots(w, interval)
	sp.Stalls = w.Draw(4) == 0
	// a third of the runs take their ammo from a real provider (decoder task, pooled ammo objects, queue)
	sp.RealProvider = []string{"", "", "", "uri", "json"}[w.Draw(5)]
	// one run in eight: a shot panics (the pool fails); the balance is then not judged, the hand-back of ammo is
	if w.Draw(8) == 0 {
		sp.PanicOn, sp.PanicInst, sp.PanicShot = true, w.Draw(3), w.Draw(4)
	}
	return sp
}

func runC03(r *R) {
	sp := genEngSpecC03(r)
	r.Sample(sp.describe())
	res := runEngine(r, sp, 24*time.Hour)
	if r.Failed() || res.Log == nil {
		return
	}
	checkAccounting(r, sp, res)
}

// checkAccounting is the C03 oracle over the recorded event log.
func checkAccounting(r *R, sp engSpec, res *engResult) {
	evs := res.Evs
	var fired, discarded, acquired, released, started, lateDiscards int
	returned := false
	type ammoState struct{ acq, rel, shots int }
	st := map[any]*ammoState{}
	get := func(a any) *ammoState {
		s := st[a]
		if s == nil {
			s = &ammoState{}
			st[a] = s
		}
		return s
	}
	for _, e := range evs {
		switch e.Kind {
		case "gun-bind":
			if e.Err == "" {
				started++
			}
		case "acquire":
			acquired++
			s := get(e.Ammo)
			if s.acq > s.rel {
				r.Fail("ammo/acquired-twice", "ammo %v handed out again before it was released", e.Ammo)
			}
			s.acq++
			s.shots = 0 // (a provider may recycle the object of a released item: shots are counted per hand-out)
		case "release":
			released++
			s := get(e.Ammo)
			s.rel++
			if s.rel > s.acq {
				r.Fail("ammo/released-twice", "ammo %v released %d times, acquired %d times", e.Ammo, s.rel, s.acq)
			}
		case "shoot-in":
			fired++
			s := get(e.Ammo)
			if s.acq == 0 || s.rel >= s.acq {
				r.Fail("ammo/used-after-release", "Shoot(%v) by instance %d while the item is not held (acquired %d, released %d)", e.Ammo, e.Inst, s.acq, s.rel)
			}
			s.shots++
			if s.shots > 1 {
				r.Fail("ammo/shot-twice", "ammo %v was fired %d times", e.Ammo, s.shots)
			}
		case "discard":
			discarded++
			if returned {
				lateDiscards++
			}
		case "run-returned":
			returned = true
		}
	}
	for _, g := range res.Factory.Guns {
		if g.Overlap {
			r.Fail("gun/concurrent-shoot", "a gun was asked to fire two requests at the same time")
		}
	}
	if res.WaitDone {
		// (however the run ended: every item taken is handed back once everything has stopped)
		for a, s := range st {
			if s.acq != s.rel {
				how := "normal end"
				if res.RunErr != nil {
					how = "failed run: " + clip(res.RunErr.Error())
				}
				r.Fail("ammo/not-released", "ammo %v acquired %d times but released %d times by the end of the run (%s)", a, s.acq, s.rel, how)
				break
			}
		}
	}
	if res.RunErr != nil {
		// the balance is stated for pools that end normally
		r.Note("run-error")
		return
	}
	r.Note("normal-end")
	if started >= 2 && fired+discarded > 0 {
		r.NonTrivial()
	}
	if !res.WaitDone {
		return
	}
	tokens := sp.RPS.Tokens
	mode := "shared"
	if sp.PerInstance {
		tokens = sp.RPS.Tokens * started
		mode = "per-instance"
	}
	want := tokens
	if sp.Ammo > 0 && sp.Ammo < want {
		want = sp.Ammo
	}
	if !sp.Discard && discarded > 0 {
		r.Fail("discard/with-discard-off", "%d samples reported as discarded although discard_overflow is off", discarded)
	}
	if lateDiscards > 0 {
		// the balance is stated at the pool's end: a discarded sample handed to the aggregator after Engine.Run returned
		// was not part of the results when the run was declared finished (real aggregators have stopped by then)
		r.Fail("conservation/discard-after-pool-end", "%d of %d discarded samples were reported only after the run had returned: fired %d + discarded %d = %d at the pool's end, want %d",
			lateDiscards, discarded, fired, discarded-lateDiscards, fired+discarded-lateDiscards, want)
	}
	if fired+discarded != want {
		r.Fail(fmt.Sprintf("conservation/%s/%s", mode, cmpWord(fired+discarded, want)),
			"fired %d + discarded %d = %d, want min(tokens %d, ammo %s) = %d (%s profile %s, %d instances started, startup %s)",
			fired, discarded, fired+discarded, tokens, ammoDesc(sp.Ammo), want, mode, sp.RPS.Desc, started, sp.Startup.Desc)
	}
	unfired := acquired - fired - discarded
	if sp.PerInstance {
		if unfired != 0 {
			r.Fail("unfired/per-instance", "%d acquired items were neither fired nor discarded with per-instance finite profiles (acquired %d, fired %d, discarded %d)", unfired, acquired, fired, discarded)
		}
	} else if unfired > started-1 && unfired > 0 {
		r.Fail("unfired/shared", "%d acquired items went unfired with a shared finite profile and %d instances (at most %d allowed)", unfired, started, started-1)
	}
	if unfired > 0 {
		r.Note("unfired-items")
	}
	m := res.Metrics
	if int(m.Request.Get()) != fired || int(m.Response.Get()) != fired {
		r.Fail("metrics/request-response", "Metrics.Request=%d Response=%d, fired=%d", m.Request.Get(), m.Response.Get(), fired)
	}
	if m.InstanceStart.Get() != m.InstanceFinish.Get() || int(m.InstanceStart.Get()) != started {
		r.Fail("metrics/instances", "Metrics.InstanceStart=%d InstanceFinish=%d, instances bound=%d", m.InstanceStart.Get(), m.InstanceFinish.Get(), started)
	}
	if discarded > 0 {
		r.Note("had-discards")
	}
	if sp.Ammo > 0 && sp.Ammo < tokens {
		r.Note("ammo-bound-binds")
	} else {
		r.Note("tokens-bind")
	}
}

func cmpWord(got, want int) string {
	if got < want {
		return "too-few"
	}
	return "too-many"
}

func ammoDesc(a int) string {
	if a <= 0 {
		return "unlimited"
	}
	return fmt.Sprint(a)
}

var _ = stubs.NewLog
