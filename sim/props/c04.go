package props

import (
	"fmt"
	"sort"
	"time"

	"verifsim/ref"
	"verifsim/stubs"
)

// ---- C04: no early shots; discard_overflow bounds lateness to the 2 s window ----

func init() {
	Register(&Prop{
		ID:    "C04",
		Run:   runC04,
		Level: "exploration",
		Rule: "a run = one pool with a shared finite profile (1 s..10 min), 1-6 instances, discard_overflow on/off and a scripted history of response times that makes instances fall behind (bursts slower than the inter-token interval, 2-30 s outliers, permanently slow target), under one seeded interleaving; " +
			"non-trivial = at least one token was picked up late (after its scheduled time); distinct = distinct schedule-trace hash",
		Components: map[string]string{
			"core/engine": "real", "core/coreutil.Waiter": "real", "core/schedule/*": "real, wrapped by a recorder (token time, pick-up instant)",
			"core/provider.num": "real", "core/aggregator.discard": "real, wrapped by a recorder", "gun": "stub (scripted response times)", "clock": "simulated",
		},
	})
}

const maxOverdue = 2 * time.Second // the documented window (docs/eng/best_practices/discard-overflow.md)

func runC04(r *R) {
	w := r.W
	sp := engSpec{GunErrAt: -1}
	n := 1 + w.Draw(6)
	sp.Startup = schedSpec{Conf: map[string]interface{}{"type": "once", "times": n}, Desc: fmt.Sprintf("once(%d)", n), Tokens: n}
	if w.Draw(4) == 0 {
		sp.Startup = genStartup(w, 6)
	}
	sp.RPS = genRPS(w, 200)
	// the profile as the documentation defines it (independent of pandora's schedules): no shot may come before the
	// instant the configured profile reaches it, whatever token times the schedule hands out
	if offs, fd, _, err := ref.OffsetsOf(sp.RPS.Conf); err == nil {
		sort.Slice(offs, func(i, j int) bool { return offs[i] < offs[j] })
		sp.RPS.RefOffs, sp.RPS.FiniteDur = offs, fd
	}
	// one run in five: the finite profile is followed by an `unlimited` part (as fast as the guns can, for a while)
	if w.Draw(5) == 0 {
		sp.RPS.Tail = []time.Duration{500 * time.Millisecond, 2 * time.Second, 3 * time.Second}[w.Draw(3)]
		var list []interface{}
		if l, ok := sp.RPS.Conf.([]interface{}); ok {
			list = append(list, l...)
		} else {
			list = append(list, sp.RPS.Conf)
		}
		list = append(list, map[string]interface{}{"type": "unlimited", "duration": sp.RPS.Tail.String()})
		sp.RPS.Conf = list
		sp.RPS.Desc = fmt.Sprintf("[%s, unlimited(%v)]", sp.RPS.Desc, sp.RPS.Tail)
		sp.RPS.Dur += sp.RPS.Tail
	}
	sp.Ammo = 0
	sp.Discard = w.Draw(3) != 0
	interval := time.Second
	if sp.RPS.Tokens > 1 && sp.RPS.Dur > 0 {
		interval = sp.RPS.Dur / time.Duration(sp.RPS.Tokens)
	}
	sp.Shots = genShots(w, interval)
	if sp.RPS.Tail > 0 && (sp.Shots.Kind == "zero" || sp.Shots.Base < 50*time.Millisecond) {
		// (an unlimited part with a target that answers in no time would never let the simulated clock advance)
		sp.Shots.Kind, sp.Shots.Base = "fixed", 50*time.Millisecond
	}
	sp.Stalls = w.Draw(5) == 0
	// a caller's cancel landing on a token's scheduled instant, or somewhere in the run: a cancelled run shoots or drops
	// the token it holds, it never reports it as discarded unless it was 2 s late
	if len(sp.RPS.Offs) > 0 && w.Draw(4) == 0 {
		sp.CancelAt = sp.RPS.Offs[w.Draw(len(sp.RPS.Offs))]
		if w.Draw(3) == 0 {
			sp.CancelAt += time.Duration(w.Draw(3000)) * time.Millisecond
		}
	}
	r.Sample(sp.describe())
	res := runEngine(r, sp, 48*time.Hour)
	if r.Failed() || res.Log == nil {
		return
	}
	checkTiming(r, sp, res)
}

func checkTiming(r *R, sp engSpec, res *engResult) {
	// per task: the token it holds
	type held struct {
		tok, pickup time.Duration
		ok          bool
	}
	cur := map[int]*held{}
	var start time.Duration = -1
	var maxShot time.Duration
	shotIn := map[int]time.Duration{}
	late := 0
	cancelled := false
	var firstCall time.Duration = -1
	nshot := 0
	// the profile starts (lazily) inside the first call on the schedule, not before that call began. The log is in the
	// order in which the calls returned: a call that began first may have been stalled inside and be logged later, so the
	// earliest begin over all calls is taken
	for _, e := range res.Evs {
		if (e.Kind == "left" || e.Kind == "next") && e.Src == "rps" && (firstCall < 0 || e.CallT < firstCall) {
			firstCall = e.CallT
		}
	}
	for _, e := range res.Evs {
		if e.Kind == "shoot-in" && !sp.PerInstance && firstCall >= 0 && (sp.RPS.RefOffs != nil || sp.RPS.Tail > 0) {
			// the k-th shot of the run against the k-th operation of the configured profile (reference arithmetic)
			due, what := time.Duration(-1), ""
			if nshot < len(sp.RPS.RefOffs) {
				due, what = sp.RPS.RefOffs[nshot], fmt.Sprintf("operation %d of the profile is due %v after its start", nshot, sp.RPS.RefOffs[nshot])
			} else if sp.RPS.Tail > 0 {
				due, what = sp.RPS.FiniteDur, fmt.Sprintf("the %d operations of the finite parts are used up and the unlimited part begins %v after the start", len(sp.RPS.RefOffs), sp.RPS.FiniteDur)
			}
			if due >= 0 {
				tol := 2*time.Microsecond + due/1_000_000_000
				if e.T+tol < firstCall+due {
					r.Fail("early-shot/against-profile", "shot %d of the run was fired %v after the profile's start (first call on the schedule at %v); %s (profile %s)", nshot, e.T-firstCall, firstCall, what, sp.RPS.Desc)
				}
			}
			nshot++
		}
		switch e.Kind {
		case "cancel":
			// the property quantifies over profiles and response-time histories, not over cancels: after the caller's
			// cancel the instance may fire or drop the token it holds (IsSlowDown answers false on a done context by
			// design), so the must-discard clause is judged only up to the cancel. The never-discard-early clause
			// stays in force throughout.
			cancelled = true
		case "left", "next":
			if e.Src != "rps" {
				continue
			}
			if start < 0 {
				start = e.T
			}
			if e.Kind == "next" {
				if e.OK {
					if h := cur[e.Task]; h != nil && !cancelled {
						// every token an instance picks up ends as a shot or, with discard_overflow, as a sample coded as
						// discarded: here the instance went on to its next token with neither on record
						r.Fail("token-neither-fired-nor-discarded", "the token scheduled at %v (picked up at %v) was neither fired nor reported as a discarded sample (777 / 'discarded') before the instance took its next token at %v (discard_overflow=%v, profile %s)", h.tok, h.pickup, e.T, sp.Discard, sp.RPS.Desc)
					}
					cur[e.Task] = &held{tok: e.Tok, pickup: e.T, ok: true}
					if e.T > e.Tok {
						late++
					}
				} else {
					delete(cur, e.Task)
				}
			}
		case "shoot-in":
			shotIn[e.Task] = e.T
			h := cur[e.Task]
			if h == nil {
				r.Fail("shot-without-token", "instance %d fired at %v without holding a schedule token", e.Inst, e.T)
				continue
			}
			if e.T < h.tok {
				r.Fail("early-shot", "instance %d fired at %v, before the scheduled time %v of its token (profile %s)", e.Inst, e.T, h.tok, sp.RPS.Desc)
			}
			if sp.Discard && !cancelled && h.pickup-h.tok >= maxOverdue {
				r.Fail("late-token-fired/"+lateClass(sp), "instance %d picked its token (scheduled %v) up at %v, %v late (>= 2s), and fired it instead of discarding (profile %s, shots %s)",
					e.Inst, h.tok, h.pickup, h.pickup-h.tok, sp.RPS.Desc, sp.Shots)
			}
			delete(cur, e.Task)
		case "shoot-out":
			if d := e.T - shotIn[e.Task]; d > maxShot {
				maxShot = d
			}
		case "discard":
			h := cur[e.Task]
			if !sp.Discard {
				r.Fail("discard-with-discard-off", "a sample was reported as discarded at %v although discard_overflow is off", e.T)
				continue
			}
			if h == nil {
				r.Fail("discard-without-token", "a discarded sample was reported at %v by a task that holds no token", e.T)
				continue
			}
			if e.T-h.tok < maxOverdue {
				r.Fail("early-discard", "token scheduled at %v was discarded at %v, only %v late (< 2s) (profile %s)", h.tok, e.T, e.T-h.tok, sp.RPS.Desc)
			}
			if code, _ := e.Ptr.(int); code != 777 || e.Err != "discarded" {
				r.Fail("discard-sample-coding", "discarded sample has net code %v and tag %q, want 777 and \"discarded\"", e.Ptr, e.Err)
			}
			delete(cur, e.Task)
		}
	}
	if late > 0 {
		r.NonTrivial()
	}
	if res.RunErr != nil {
		r.Note("run-error")
		return
	}
	// bounded run length with discard on (only without injected stalls: a stalled instance is not pandora's fault)
	if sp.Discard && !sp.Stalls && start >= 0 {
		bound := sp.RPS.Dur + maxShot + maxOverdue + time.Millisecond
		if got := res.RunAt - start; got > bound {
			r.Fail("run-length/"+lateClass(sp), "with discard_overflow on the run took %v from the profile start; profile duration %v + slowest response %v + 2s = %v (profile %s, shots %s)",
				got, sp.RPS.Dur, maxShot, bound, sp.RPS.Desc, sp.Shots)
		}
		r.Note("run-length-checked")
	}
}

// lateClass tells which kind of profile the late token came from (part of the signature).
func lateClass(sp engSpec) string {
	if m, ok := sp.RPS.Conf.(map[string]interface{}); ok {
		return fmt.Sprint(m["type"])
	}
	return "composite"
}

var _ = stubs.NewLog
