package props

import (
	"context"
	"errors"
	"fmt"
	"sort"
	"strings"
	"syscall"
	"time"

	pkgerrors "github.com/pkg/errors"
	"github.com/yandex/pandora/core"
	"github.com/yandex/pandora/core/engine"
	"go.uber.org/zap"

	"verifsim/simfs"
	"verifsim/simrt"
	"verifsim/stubs"
)

// ---- C05: run outcome and termination at every finish, failure and cancel point ----

type c05Fault struct {
	Kind string // none prov-err aggr-open aggr-err aggr-drop gun-new bind warmup shot-panic sched-shared sched-inst
	Pos  int
	// CtxKind: the component fails with its own timeout (cause context.DeadlineExceeded), not a plain error
	CtxKind bool
}

type c05Pool struct {
	// BlockingAggr: Report blocks while the aggregator's queue is full, as phout's does
	BlockingAggr bool
	Inst         int
	Tokens       int
	PerInstance  bool
	Items        int // -1 unlimited
	ShotDur      time.Duration
	Closable     bool
	Fault        c05Fault
	QLen         int
	ProvBlock    bool
	// WarmUp: the pool's warm-up takes this long and ignores its context (as the stock gRPC gun's does)
	WarmUp time.Duration
}

func (p c05Pool) String() string {
	return fmt.Sprintf("{inst=%d tokens=%d perInst=%v items=%d shot=%v closable=%v blockingAggr=%v fault=%s@%d ctxkind=%v warmup=%v}", p.Inst, p.Tokens, p.PerInstance, p.Items, p.ShotDur, p.Closable, p.BlockingAggr, p.Fault.Kind, p.Fault.Pos, p.Fault.CtxKind, p.WarmUp)
}

var c05Kinds = []string{"none", "prov-err", "aggr-open", "aggr-err", "aggr-drop", "gun-new", "bind", "warmup", "shot-panic", "sched-shared", "sched-inst"}

func init() {
	Register(&Prop{
		ID:    "C05",
		Run:   runC05,
		Level: "fault_enumeration",
		Rule: "a run = 1-3 pools of scripted components; the fault plan picks one cell of {provider error at item 0/mid/end, aggregator error at open/k-th sample/end-of-run, gun factory error for warm-up gun/first/later instance, bind error, warm-up error, shot panic at shot k, schedule factory error shared/per-instance, none} x {no cancel, cancel before start, mid-run, during drain}, seeds vary the interleaving (which awaited result the engine sees first, which side of its selects fires); " +
			"non-trivial = a fault or a cancel actually occurred before Engine.Run returned; distinct = distinct schedule-trace hash; reach_probes count the (fault cell, outcome class) pairs reached",
		Components: map[string]string{
			"core/engine (Engine.Run/Wait, instancePool, awaitRun, onErrAwaited, instance.Run recover)": "real", "lib/errutil": "real", "core/coreutil.Waiter": "real", "core/schedule/*": "real",
			"provider": "stub (scripted: items, error position, blocking)", "aggregator": "stub (scripted: open error, error at k-th sample, drop error at end)", "gun": "stub (factory/bind/warm-up errors, shot panic, Close)",
			"clock": "simulated", "goroutine scheduling": "simulated",
		},
	})
}

func c05GenPool(w, f *simrt.Stream, faultHere bool, kindForced string) c05Pool {
	p := c05Pool{Inst: 1 + w.Draw(5), PerInstance: w.Draw(3) == 0, Closable: w.Bool(), QLen: 1 + w.Draw(8)}
	p.Tokens = 1 + w.Draw(12)
	switch w.Draw(3) {
	case 0:
		p.Items = -1
	case 1:
		p.Items = 1 + w.Draw(10)
	default:
		p.Items = p.Tokens + w.Draw(6)
	}
	p.ShotDur = []time.Duration{0, time.Millisecond, 100 * time.Millisecond, time.Second}[w.Draw(4)]
	if w.Draw(8) == 0 {
		p.WarmUp = 15 * time.Second
	}
	p.ProvBlock = w.Draw(4) == 0 // only honoured when a cancel is planned (a provider that neither delivers nor ends cannot finish otherwise)
	p.Fault = c05Fault{Kind: "none"}
	p.BlockingAggr = false
	if faultHere {
		k := c05Kinds[1+f.Draw(len(c05Kinds)-1)]
		if kindForced != "" {
			k = kindForced
		}
		p.Fault.Kind = k
		switch k {
		case "prov-err":
			switch f.Draw(3) {
			case 0:
				p.Fault.Pos = 0
			case 1:
				p.Fault.Pos = 1 + f.Draw(5)
			default: // at the very end: after the last item
				if p.Items < 0 {
					p.Items = 1 + w.Draw(10)
				}
				p.Fault.Pos = p.Items
			}
		case "aggr-err":
			p.Fault.Pos = f.Draw(6)
		case "gun-new":
			p.Fault.Pos = f.Draw(p.Inst + 1) // 0 = warm-up gun
		case "bind":
			p.Fault.Pos = f.Draw(p.Inst)
		case "shot-panic":
			p.Fault.Pos = f.Draw(p.Inst)*100 + f.Draw(4)
		case "sched-inst":
			p.PerInstance = true
			p.Fault.Pos = f.Draw(p.Inst)
		case "sched-shared":
			p.PerInstance = false
		}
		if k == "prov-err" || strings.HasPrefix(k, "aggr-") {
			p.Fault.CtxKind = f.Draw(4) == 0
		}
	}
	return p
}

type c05PoolRT struct {
	spec  c05Pool
	log   *stubs.Log
	fac   *stubs.GunFactory
	prov  *stubs.ScriptProvider
	aggr  *stubs.ScriptAggregator
	calls int
}

func runC05(r *R) {
	if (r.Mode == "" && r.W.Draw(8) == 0) || r.Mode == "real" {
		c05Real(r)
		return
	}
	w, f := r.W, r.F
	npools := 1 + w.Biased(3, 2, 3)
	faultPool := -1
	if f.Draw(8) != 0 { // most runs have a component fault
		faultPool = f.Draw(npools)
	}
	forced := ""
	if strings.HasPrefix(r.Mode, "kind=") {
		forced = strings.TrimPrefix(r.Mode, "kind=")
		faultPool = 0
	}
	var pools []c05Pool
	for i := 0; i < npools; i++ {
		pools = append(pools, c05GenPool(w, f, i == faultPool, forced))
	}
	// cancel phase: 0 none, 1 before start, 2 mid-run (drawn instant), 3 late (often during drain / after the end)
	cancelPhase := f.Biased(4, 1, 2)
	var cancelAt time.Duration
	switch cancelPhase {
	case 2:
		cancelAt = time.Duration(1+f.Draw(3000)) * time.Millisecond
	case 3:
		cancelAt = time.Duration(f.Draw(5)) * time.Second
	}
	stalls := w.Draw(5) == 0
	// nothing requires the ids of the pools to differ: one run in six with several pools gives them all the same id
	sameIDs := npools > 1 && w.Draw(6) == 0
	if sameIDs {
		r.Note("pools-with-equal-ids")
	}
	desc := fmt.Sprintf("pools=%v cancel=%d@%v stalls=%v equal-ids=%v", pools, cancelPhase, cancelAt, stalls, sameIDs)
	r.Sample(map[string]any{"pools": fmt.Sprint(pools), "cancel_phase": cancelPhase, "cancel_at": cancelAt.String(), "stalls": stalls})

	const G = 10 * time.Second
	var maxWarm time.Duration
	for _, ps := range pools {
		if ps.WarmUp > maxWarm {
			maxWarm = ps.WarmUp
		}
	}
	if maxWarm > 0 {
		r.Note("slow-warm-up")
	}
	var (
		rts          []*c05PoolRT
		runErr       error
		runAt        time.Duration
		waitAt       time.Duration = -1
		waitSq       uint64
		t0           time.Time
		metrics      engine.Metrics
		cancelT      time.Duration = -1
		cancelSq     uint64
		cancelDoneT  time.Duration = -1
		cancelDoneSq uint64
		runSq        uint64
	)
	res := r.Sim(simrt.Config{Horizon: 2 * time.Hour, Grace: 30 * time.Second, Stalls: stalls, StallMax: time.Second, MaxSteps: 150000}, false, func() {
		t0 = time.Now()
		metrics = newMetrics()
		var confs []engine.InstancePoolConfig
		for i, ps := range pools {
			ps := ps
			rt := &c05PoolRT{spec: ps, log: stubs.NewLog()}
			rts = append(rts, rt)
			script := stubs.DefaultGunScript()
			script.Closable = ps.Closable
			script.ShotDur = func(int, int) time.Duration { return ps.ShotDur }
			script.Report = true
			script.WarmUpDur = ps.WarmUp
			switch ps.Fault.Kind {
			case "gun-new":
				script.NewErrAt = ps.Fault.Pos
			case "bind":
				script.BindErrInst = ps.Fault.Pos
			case "warmup":
				script.WarmUpErr = true
			case "shot-panic":
				script.PanicInst, script.PanicShot = ps.Fault.Pos/100, ps.Fault.Pos%100
			}
			rt.fac = &stubs.GunFactory{Log: rt.log, Script: script}
			rt.prov = stubs.NewScriptProvider(rt.log, ps.Items)
			rt.prov.Block = ps.ProvBlock && cancelPhase >= 2
			if ps.Fault.Kind == "prov-err" {
				rt.prov.ErrAt = ps.Fault.Pos
				rt.prov.CtxKind = ps.Fault.CtxKind
			}
			rt.aggr = stubs.NewScriptAggregator(rt.log, ps.QLen)
			rt.aggr.Blocking = ps.BlockingAggr
			rt.aggr.CtxKind = ps.Fault.CtxKind
			switch ps.Fault.Kind {
			case "aggr-open":
				rt.aggr.OpenErr = true
			case "aggr-err":
				rt.aggr.ErrAt = ps.Fault.Pos
			case "aggr-drop":
				rt.aggr.DropErr = true
			}
			startup, err := decodeSchedule(map[string]interface{}{"type": "once", "times": ps.Inst})
			if err != nil {
				panic(err)
			}
			id := fmt.Sprintf("p%d", i)
			if sameIDs {
				id = "pool"
			}
			confs = append(confs, engine.InstancePoolConfig{
				ID:              id,
				Provider:        rt.prov,
				Aggregator:      rt.aggr,
				NewGun:          rt.fac.New,
				RPSPerInstance:  ps.PerInstance,
				StartupSchedule: startup,
				DiscardOverflow: false,
				NewRPSSchedule: func() (core.Schedule, error) {
					k := rt.calls
					rt.calls++
					if ps.Fault.Kind == "sched-shared" || (ps.Fault.Kind == "sched-inst" && k == ps.Fault.Pos) {
						msg := fmt.Sprintf("injected schedule factory failure (call %d)", k)
						rt.log.Add(stubs.Ev{Kind: "sched-err", Err: msg})
						return nil, errors.New(msg)
					}
					return decodeSchedule(map[string]interface{}{"type": "once", "times": ps.Tokens})
				},
			})
		}
		eng := engine.New(zap.NewNop(), metrics, engine.Config{Pools: confs})
		ctx, cancel := context.WithCancel(context.Background())
		defer cancel()
		doCancel := func() {
			cancelT = time.Since(t0)
			cancelSq = simrt.Seq()
			cancel() // (a scheduling point: the caller may be descheduled between deciding to cancel and the cancel taking effect)
			cancelDoneT = time.Since(t0)
			cancelDoneSq = simrt.Seq()
		}
		switch cancelPhase {
		case 1:
			doCancel()
		case 2, 3:
			go func() {
				time.Sleep(cancelAt)
				doCancel()
			}()
		}
		runErr = eng.Run(ctx)
		runAt = time.Since(t0)
		runSq = simrt.Seq()
		waited := make(chan struct{})
		go func() {
			eng.Wait()
			close(waited)
		}()
		select {
		case <-waited:
			waitAt = time.Since(t0)
			waitSq = simrt.Seq()
		case <-time.After(G + maxWarm):
			// (a warm-up that ignores its context keeps its pool's goroutine for as long as it takes: the engine's
			// background tasks are over G after that at the latest)
		}
	})
	if res.Class == simrt.Crash {
		r.ReportInfra(res)
		return
	}
	if res.Class != simrt.OK {
		// Engine.Run itself did not return (or the step budget ran out)
		r.Fail("run-does-not-return/"+c05Kind(pools), "%s; %s", res.Detail, desc)
		return
	}
	// ---- collect what actually happened ----
	type occ struct {
		msg  string
		seq  uint64
		t    time.Duration
		kind string
	}
	var E []occ
	started, finishedBeforeCancel := 0, true
	lastAct := time.Duration(0)
	for pi, rt := range rts {
		for _, e := range rt.log.Snapshot() {
			if e.T > lastAct && e.Seq < runSq {
				lastAct = e.T
			}
			isErr := false
			switch e.Kind {
			case "prov-run-out", "aggr-run-out":
				isErr = e.Err != "" && !strings.Contains(e.Err, "context canceled")
			case "gun-new", "gun-bind", "warmup", "shoot-panic", "sched-err":
				isErr = e.Err != ""
			}
			if isErr {
				E = append(E, occ{msg: e.Err, seq: e.Seq, t: e.T, kind: fmt.Sprintf("p%d:%s", pi, e.Kind)})
			}
			if e.Kind == "gun-bind" && e.Err == "" {
				started++
			}
			if cancelDoneT >= 0 && e.Seq > cancelDoneSq && (e.Kind == "shoot-in" || e.Kind == "shoot-out" || e.Kind == "acquire") {
				finishedBeforeCancel = false
			}
		}
	}
	sort.Slice(E, func(i, j int) bool { return E[i].seq < E[j].seq })
	var before []occ // component errors that occurred before Engine.Run returned
	for _, o := range E {
		if o.seq < runSq {
			before = append(before, o)
		}
	}
	cancelled := cancelT >= 0 && cancelSq < runSq
	if len(before) > 0 || cancelled {
		r.NonTrivial()
	}
	cell := c05Cell(pools, cancelPhase)
	outcome := "nil"
	if runErr != nil {
		outcome = "error"
		if pkgerrors.Cause(runErr) == context.Canceled || errors.Is(runErr, context.Canceled) {
			outcome = "canceled"
		}
	}
	r.Note(cell + "=>" + outcome)

	carries := func(err error) (string, bool) {
		for _, o := range before {
			if strings.Contains(err.Error(), o.msg) {
				return o.kind, true
			}
		}
		return "", false
	}
	// ---- outcome ----
	switch {
	case runErr == nil:
		if len(before) > 0 {
			o := before[0]
			r.Fail("error-swallowed/"+stripPool(o.kind)+"/"+swallowPhase(o.t, lastAct), "Engine.Run returned nil although %s failed with %q at %v (before Run returned at %v); %s", o.kind, o.msg, o.t, runAt, desc)
		} else if cancelDoneT >= 0 && cancelDoneSq < runSq && !finishedBeforeCancel {
			r.Fail("cancel-ignored", "the caller's cancel took effect at %v while instances were still shooting, but Engine.Run returned nil at %v; %s", cancelDoneT, runAt, desc)
		}
	case outcome == "canceled":
		if !cancelled {
			r.Fail("spurious-cancel-error", "Engine.Run returned %v but the caller did not cancel before it returned; %s", runErr, desc)
		}
	default:
		if _, ok := carries(runErr); !ok {
			if len(before) == 0 {
				r.Fail("error-without-cause", "Engine.Run returned %q although no component failed; %s", runErr, desc)
			} else {
				r.Fail("error-does-not-carry-cause/"+stripPool(before[0].kind), "Engine.Run returned %q, which carries none of the component errors that occurred (%q ...); %s", runErr, before[0].msg, desc)
			}
		}
	}
	// ---- promptness (bounded liveness after the deciding event) ----
	if !stalls {
		decide := lastAct
		if cancelled && runErr != nil && outcome == "canceled" {
			decide = cancelT
		} else if len(before) > 0 && runErr != nil {
			decide = before[0].t
			for _, o := range before {
				if strings.Contains(runErr.Error(), o.msg) {
					decide = o.t
					break
				}
			}
		}
		if runAt-decide > G {
			r.Fail("run-returns-late/"+outcome, "Engine.Run returned at %v, %v after the deciding event at %v (bound %v); %s", runAt, runAt-decide, decide, G, desc)
		}
	}
	// ---- termination of everything ----
	if waitAt < 0 {
		r.Fail("wait-never-returns/"+c05Kind(pools), "Engine.Wait did not return within %v after Engine.Run returned (%v) at %v; still blocked: %v; %s", G, runErr, runAt, res.Leaked, desc)
	}
	var engineLeaks []string
	for _, l := range res.Leaked {
		if strings.Contains(l, "core/engine/") {
			engineLeaks = append(engineLeaks, l)
		}
	}
	if len(engineLeaks) > 0 {
		r.Fail("goroutine-leak/"+leakSite(engineLeaks[0]), "%d engine goroutine(s) still alive %v after the run ended: %v; %s", len(engineLeaks), 30*time.Second, engineLeaks, desc)
	}
	if waitAt >= 0 {
		// "waiting for the engine's background tasks returns" - and then they are over: nothing of the run may start or
		// continue after Wait has returned
		for pi, rt := range rts {
			for _, e := range rt.log.Snapshot() {
				if e.Seq > waitSq {
					switch e.Kind {
					case "gun-new", "warmup", "gun-bind", "prov-run-in", "aggr-run-in", "shoot-in", "acquire", "gun-close":
						r.Fail("activity-after-wait/"+e.Kind, "pool %d: %s happened after Engine.Wait had returned (at %v): the engine's background tasks were not over; %s", pi, e.Kind, waitAt, desc)
					}
				}
			}
		}
	}
	if waitAt >= 0 && len(engineLeaks) == 0 {
		if s, f := metrics.InstanceStart.Get(), metrics.InstanceFinish.Get(); s != f {
			r.Fail("instance-not-finished", "InstanceStart=%d InstanceFinish=%d after Wait returned; %s", s, f, desc)
		}
		for pi, rt := range rts {
			in, out := rt.log.Count("prov-run-in"), rt.log.Count("prov-run-out")
			ain, aout := rt.log.Count("aggr-run-in"), rt.log.Count("aggr-run-out")
			if in != out || ain != aout {
				r.Fail("component-still-running", "pool %d: provider Run entered %d returned %d, aggregator Run entered %d returned %d after Wait returned; %s", pi, in, out, ain, aout, desc)
			}
			// whatever way the run ended - success, a failing component, a panicking shot, a cancel - every ammo item an
			// instance took is given back to the provider exactly once by the time everything has stopped
			acq, rel := map[any]int{}, map[any]int{}
			for _, e := range rt.log.Snapshot() {
				switch e.Kind {
				case "acquire":
					acq[e.Ammo]++
				case "release":
					rel[e.Ammo]++
				}
			}
			for a, n := range acq {
				if rel[a] != n {
					r.Fail("ammo-not-released/"+c05Kind(pools), "pool %d: ammo %v was acquired %d times and released %d times by the time Engine.Wait returned; %s", pi, a, n, rel[a], desc)
					break
				}
			}
			for a, n := range rel {
				if acq[a] < n {
					r.Fail("ammo-released-twice/"+c05Kind(pools), "pool %d: ammo %v was released %d times, acquired %d times; %s", pi, a, n, acq[a], desc)
					break
				}
			}
			for _, e := range rt.log.Snapshot() {
				if e.Kind == "shoot-in" && e.AfterClose {
					r.Fail("gun-used-after-close", "pool %d: instance %d was asked to shoot with a gun that had already been closed; %s", pi, e.Inst, desc)
					break
				}
			}
			if rt.spec.Closable {
				closes := map[any]int{}
				bound := map[any]bool{}
				for _, e := range rt.log.Snapshot() {
					if e.Kind == "gun-bind" && e.Err == "" {
						bound[e.Ptr] = true
					}
					if e.Kind == "gun-close" && e.Seq <= waitSq {
						// (closed by the time Wait returned: a Close still pending then is not covered by anything the caller can wait for)
						closes[e.Ptr]++
					}
				}
				for g := range bound {
					if closes[g] != 1 {
						r.Fail("gun-close", "pool %d: a closable gun of a started instance had been closed %d times when Engine.Wait returned; %s", pi, closes[g], desc)
						break
					}
				}
			}
		}
	}
}

func stripPool(k string) string {
	if i := strings.IndexByte(k, ':'); i >= 0 {
		return k[i+1:]
	}
	return k
}

// swallowPhase: did the swallowed error come while work was going on, or at the very end
func swallowPhase(t, lastAct time.Duration) string {
	if t >= lastAct {
		return "at-end"
	}
	return "mid-run"
}

func leakSite(l string) string {
	if i := strings.Index(l, "(last at "); i >= 0 {
		return strings.TrimSuffix(l[i+9:], ")")
	}
	return l
}

// c05Cell names the fault-plan cell of the run.
func c05Cell(pools []c05Pool, cancelPhase int) string {
	k, pos := "none", ""
	for _, p := range pools {
		if p.Fault.Kind != "none" {
			k = p.Fault.Kind
			switch k {
			case "prov-err":
				switch {
				case p.Fault.Pos == 0:
					pos = "@first"
				case p.Fault.Pos >= p.Items && p.Items >= 0:
					pos = "@end"
				default:
					pos = "@mid"
				}
			case "gun-new":
				if p.Fault.Pos == 0 {
					pos = "@warmup-gun"
				} else if p.Fault.Pos == 1 {
					pos = "@first-instance"
				} else {
					pos = "@later-instance"
				}
			case "aggr-err":
				if p.Fault.Pos == 0 {
					pos = "@first"
				} else {
					pos = "@mid"
				}
			}
		}
	}
	mp := ""
	if len(pools) > 1 {
		mp = "/multi-pool"
	}
	return fmt.Sprintf("%s%s/cancel%d%s", k, pos, cancelPhase, mp)
}

// c05Kind is the fault kind (with its position class) of the run: the part of the cell that goes into signatures.
func c05Kind(pools []c05Pool) string {
	c := c05Cell(pools, 0)
	return c[:strings.Index(c, "/cancel")]
}

// ---- second configuration set: real aggregators and providers failing for real reasons (disk) ----

// c05Real: one pool with the real phout / jsonlines aggregator and the real uri provider on the simulated disk, a
// reporting stub gun; the disk fails (ENOSPC / EIO at a byte offset of the result file, EIO at a byte offset of the
// ammo file). The run must end with an error that carries the cause, Engine.Wait must return, nothing may stay
// blocked.
func c05Real(r *R) {
	w, f := r.W, r.F
	sp := genC06Spec(w)
	sp.Queue = []int{1, 2, 4, 64}[w.Draw(4)]
	inst := 1 + w.Draw(5)
	tokens := 5 + w.Draw(60)
	var ammo strings.Builder
	n := 3 + w.Draw(6)
	for i := 0; i < n; i++ {
		fmt.Fprintf(&ammo, "/path/%d?x=%d tag%d\n", i, i, i)
	}
	resPlan, ammoPlan := simfs.NoPlan(), simfs.NoPlan()
	fault := "none"
	switch f.Draw(4) {
	case 0:
		fault = "result-enospc"
		resPlan.WriteErrAt, resPlan.WriteErr = int64(f.Draw(1500)), syscall.ENOSPC
	case 1:
		fault = "result-eio"
		resPlan.WriteErrAt, resPlan.WriteErr = int64(f.Draw(1500)), syscall.EIO
	case 2:
		fault = "ammo-eio"
		ammoPlan.ReadErrAt = int64(f.Draw(ammo.Len()))
		ammoPlan.ReadChunk = 16
	}
	// small write buffers so that the fault is met while shots are still being fired
	sp.Buffer = "1kb"
	sp.FlushInt = "100ms"
	shot := []time.Duration{0, time.Millisecond, 50 * time.Millisecond}[w.Draw(3)]
	r.Sample(map[string]any{"mode": "real-components", "aggregator": sp.conf(), "instances": inst, "tokens": tokens, "ammo_entries": n, "fault": fault, "shot": shot.String()})
	r.NonTrivial()
	r.Note("real/" + sp.Kind + "/" + fault)
	var (
		runErr            error
		runDone, waitDone bool
		disk              *simfs.Fs
		log               *stubs.Log
		buildErr          error
	)
	res := r.Sim(simrt.Config{Horizon: time.Hour, Grace: 30 * time.Second, MaxSteps: 300000}, false, func() {
		disk = simfs.New()
		disk.MkdirAll("/results", 0o755)
		disk.WriteFile("/ammo/ammo.uri", []byte(ammo.String()))
		rp, ap := resPlan, ammoPlan
		disk.Plans[sp.Path] = &rp
		disk.Plans["/ammo/ammo.uri"] = &ap
		GlobalFs.Set(disk)
		aggr, err := decodeAggregator(sp.conf())
		if err != nil {
			buildErr = err
			return
		}
		prov, err := decodeProvider(map[string]interface{}{"type": "uri", "file": "/ammo/ammo.uri"})
		if err != nil {
			buildErr = err
			return
		}
		log = stubs.NewLog()
		script := stubs.DefaultGunScript()
		script.Report = true
		script.JSONSamples = sp.Kind == "jsonlines"
		script.ShotDur = func(int, int) time.Duration { return shot }
		fac := &stubs.GunFactory{Log: log, Script: script}
		startup, _ := decodeSchedule(map[string]interface{}{"type": "once", "times": inst})
		pool := engine.InstancePoolConfig{
			ID: "p0", Provider: prov, Aggregator: aggr, NewGun: fac.New, StartupSchedule: startup,
			NewRPSSchedule: func() (core.Schedule, error) {
				return decodeSchedule(map[string]interface{}{"type": "const", "ops": 100, "duration": fmt.Sprintf("%dms", tokens*10)})
			},
		}
		eng := engine.New(zap.NewNop(), newMetrics(), engine.Config{Pools: []engine.InstancePoolConfig{pool}})
		runErr = eng.Run(context.Background())
		runDone = true
		eng.Wait()
		waitDone = true
	})
	GlobalFs.Set(simfs.New())
	fired := map[string]int{}
	if disk != nil {
		fired = disk.Fired
		for k, v := range fired {
			for i := 0; i < v; i++ {
				r.Fault("disk:"+k, true)
			}
		}
	}
	faultBit := fired["write-error"]+fired["read-eio"]+fired["short-write"] > 0
	ctx := fmt.Sprintf("real %s aggregator (queue %d), real uri provider, %d instances, fault %s (fired: %v)", sp.Kind, sp.Queue, inst, fault, fired)
	switch res.Class {
	case simrt.Crash:
		r.Fail("real/CRASH/"+frameSig(res.Stack), "%s\n%s\n%s", res.Detail, res.Stack, ctx)
		return
	case simrt.Hang, simrt.Livelock, simrt.Spin:
		switch {
		case !runDone:
			r.Fail("real/run-never-returns/"+sp.Kind+"/"+fault, "Engine.Run did not return: %s; %s", res.Detail, ctx)
		case !waitDone:
			r.Fail("real/wait-never-returns/"+sp.Kind+"/"+fault, "Engine.Run returned %v but Engine.Wait never returned: %s; %s", runErr, res.Detail, ctx)
		default:
			r.Fail("real/HANG", "%s; %s", res.Detail, ctx)
		}
		return
	}
	if buildErr != nil {
		if fault == "none" {
			r.Fail("real/build-error", "%v", buildErr)
		}
		return
	}
	if faultBit && runErr == nil {
		r.Fail("real/error-swallowed/"+sp.Kind+"/"+fault, "the disk failed (%v) but Engine.Run returned nil; %s", fired, ctx)
	}
	if !faultBit && runErr != nil {
		r.Fail("real/spurious-error/"+sp.Kind, "Engine.Run returned %q without any injected fault having fired; %s", runErr, ctx)
	}
	if faultBit && runErr != nil {
		want := "input/output error"
		if fault == "result-enospc" {
			want = "no space left"
		}
		if !strings.Contains(runErr.Error(), want) {
			r.Fail("real/error-does-not-carry-cause/"+fault, "Engine.Run returned %q, which does not carry the cause (%s); %s", runErr, want, ctx)
		}
	}
	for _, l := range res.Leaked {
		if strings.Contains(l, "core/engine") {
			r.Fail("real/goroutine-leak/"+sp.Kind+"/"+fault, "engine goroutines still alive 30s after the run ended: %v; %s", res.Leaked, ctx)
			break
		}
	}
}
