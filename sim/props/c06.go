package props

import (
	"context"
	"encoding/json"
	"errors"
	"fmt"
	"math"
	"os"
	"regexp"
	"runtime"
	"strconv"
	"strings"
	"syscall"
	"time"

	"github.com/yandex/pandora/cli"
	"github.com/yandex/pandora/core"
	"github.com/yandex/pandora/core/aggregator/netsample"
	"github.com/yandex/pandora/core/config"
	"github.com/yandex/pandora/core/engine"
	"go.uber.org/zap"
	"go.uber.org/zap/zapcore"

	"verifsim/simfs"
	"verifsim/simrt"
	"verifsim/simsig"
	"verifsim/stubs"
)

// ---- C06: result completeness ----

func init() {
	Register(&Prop{
		ID:    "C06",
		Run:   runC06,
		Level: "fault_enumeration",
		Rule: "a run = one of three levels: (A) the real phout / jsonlines aggregator alone with 1-8 reporter tasks, drawn queue size, buffer size and flush interval, end-of-run cancel after the last report (or at a drawn instant), optionally a disk fault (ENOSPC/EIO at a byte offset, short writes, close error); " +
			"(B) the real engine with a reporting stub gun and the real aggregator; (C) the real cli termination logic (awaitPandoraTermination + runEngine) with SIGINT/SIGTERM delivered at a drawn simulated instant, the zap fatal hook marking process exit and only bytes already written to the simulated disk surviving; " +
			"non-trivial = at least two reports were in flight concurrently with the aggregator loop (level A/B) or the signal arrived while requests were in flight (C); distinct = distinct schedule-trace hash",
		Components: map[string]string{
			"core/aggregator/netsample (phout, sample)": "real", "core/aggregator (encoder, reporter, jsonlines)": "real", "core/datasink/file": "real",
			"core/engine": "real (levels B, C)", "cli.awaitPandoraTermination / runEngine": "real (level C; the wiring of ReadConfigAndRunEngine is replicated by an overlay shim)",
			"disk": "simulated (simfs)", "signals / process exit": "simulated (simsig, zap fatal hook)", "gun / provider": "stub", "clock": "simulated",
		},
	})
}

type c06Spec struct {
	Level    string // A, B, C
	Kind     string // phout, phout-id, jsonlines
	Queue    int
	Buffer   string
	FlushInt string
	Path     string
	// CloseReports: (level B) the guns are closable and report one more sample while being closed
	CloseReports bool
	CloseDur     time.Duration
}

func decodeAggregator(conf map[string]interface{}) (core.Aggregator, error) {
	ensureImport()
	var c struct {
		A core.Aggregator `config:"a"`
	}
	err := config.DecodeAndValidate(map[string]interface{}{"a": deepCopy(conf)}, &c)
	return c.A, err
}

func (s c06Spec) conf() map[string]interface{} {
	switch s.Kind {
	case "phout", "phout-id":
		m := map[string]interface{}{"type": "phout", "destination": s.Path, "id": s.Kind == "phout-id", "sample-queue-size": s.Queue, "buffer-size": s.Buffer}
		if s.FlushInt != "1s" {
			m["flush-time"] = s.FlushInt // any flush interval, 0 included
		}
		return m
	default:
		// (jsonlines has two squashed 'buffer-size' fields, an int and a datasize: only a plain number decodes)
		n := map[string]int{"1kb": 1024, "4kb": 4096, "64kb": 65536, "512kb": 524288}[s.Buffer]
		return map[string]interface{}{"type": "jsonlines", "sink": s.Path, "sample-queue-size": s.Queue, "buffer-size": n, "flush-interval": s.FlushInt}
	}
}

func genC06Spec(w *simrt.Stream) c06Spec {
	s := c06Spec{Path: "/results/out.log"}
	s.Kind = []string{"phout", "phout-id", "jsonlines"}[w.Draw(3)]
	s.Queue = []int{1, 2, 8, 64, 1024}[w.Draw(5)]
	s.Buffer = []string{"1kb", "4kb", "64kb", "512kb"}[w.Draw(4)]
	s.FlushInt = []string{"0s", "100ms", "1s", "5s"}[w.Draw(4)]
	return s
}

type jsonSample = stubs.JSONSample

type c06Report struct {
	Tag      string
	Ret      uint64        // sequence stamp when Report returned
	RetT     time.Duration // simulated instant Report returned
	Created  time.Time
	Line     string // expected phout line (without the leading timestamp part for jsonlines)
	Returned bool
}

// makeSample builds the sample of report #n of reporter r and the line it must produce.
func makeSample(kind string, tag string, seed uint64) (core.Sample, string, time.Time) {
	if kind == "jsonlines" {
		s := &jsonSample{Tag: tag, N: int(seed % 1000), F: float64(seed%97) / 7, Pad: stubs.PadFor(int(simrt.Split(seed, 11) % 1000))}
		return s, "", time.Now()
	}
	s := netsample.Acquire(tag)
	ts := netsample.VerifTimestamp(s)
	v := func(k uint64) int { return int(simrt.Split(seed, k) % 100000) }
	s.SetUserDuration(time.Duration(v(1)) * time.Microsecond)
	s.SetConnectTime(time.Duration(v(2)) * time.Microsecond)
	s.SetSendTime(time.Duration(v(3)) * time.Microsecond)
	s.SetLatency(time.Duration(v(4)) * time.Microsecond)
	s.SetReceiveTime(time.Duration(v(5)) * time.Microsecond)
	s.SetRequestBytes(v(6))
	s.SetResponseBytes(v(7))
	net := v(8) % 1000
	if v(11)%8 == 0 {
		net = -1 - net%50 // a gun may report any integer: a negative one is written with its sign
	}
	s.SetUserNet(net)
	s.SetUserProto(100 + v(9)%500)
	id := uint64(v(10))
	s.SetID(id)
	t := tag
	if kind == "phout-id" {
		t = fmt.Sprintf("%s#%d", tag, id)
	}
	ms := ts.UnixNano() / 1e6
	// documented order: time, tag, interval_real, connect, send, latency, receive, interval_event, size_out, size_in, net_code, proto_code
	line := fmt.Sprintf("%d.%03d\t%s\t%d\t%d\t%d\t%d\t%d\t%d\t%d\t%d\t%d\t%d", ms/1000, ms%1000, t, v(1), v(2), v(3), v(4), v(5), 0, v(6), v(7), net, 100+v(9)%500)
	return s, line, ts
}

var phoutLineRe = regexp.MustCompile(`^\d+\.\d{3}\t[^\t]*(\t-?\d+){10}$`)

// parseOutput checks the well-formedness of every line and returns tag -> lines.
func parseOutput(r *R, kind string, data []byte, tolerateTornTail bool) (map[string][]string, int) {
	out := map[string][]string{}
	if len(data) == 0 {
		return out, 0
	}
	text := string(data)
	lines := strings.Split(text, "\n")
	if lines[len(lines)-1] == "" {
		lines = lines[:len(lines)-1]
	} else if !tolerateTornTail {
		r.Fail("output/torn-last-line/"+kind, "the output does not end with a newline: last line %q", clip(lines[len(lines)-1]))
		return out, len(lines)
	} else {
		lines = lines[:len(lines)-1]
	}
	for _, l := range lines {
		var tag string
		if kind == "jsonlines" {
			var js jsonSample
			if err := json.Unmarshal([]byte(l), &js); err != nil || js.Tag == "" {
				r.Fail("output/malformed-line/jsonlines", "line %q is not one valid JSON sample: %v", clip(l), err)
				continue
			}
			tag = js.Tag
		} else {
			if !phoutLineRe.MatchString(l) {
				r.Fail("output/malformed-line/phout", "line %q does not match '<sec>.<ms>\\t<tag>' + 10 tab separated integers", clip(l))
				continue
			}
			tag = strings.Split(l, "\t")[1]
			if i := strings.IndexByte(tag, '#'); i >= 0 {
				tag = tag[:i]
			}
		}
		out[tag] = append(out[tag], l)
	}
	return out, len(lines)
}

func clip(s string) string {
	if len(s) > 200 {
		return s[:200] + "..."
	}
	return s
}

var droppedRe = regexp.MustCompile(`(\d+) samples were dropped`)

func droppedFrom(err error) int {
	if err == nil {
		return 0
	}
	m := droppedRe.FindStringSubmatch(err.Error())
	if m == nil {
		return 0
	}
	n, _ := strconv.Atoi(m[1])
	return n
}

func runC06(r *R) {
	lvl := r.W.Draw(10)
	if r.Mode != "" {
		lvl = map[string]int{"A": 0, "B": 7, "C": 9}[r.Mode]
	}
	switch {
	case lvl < 6:
		runC06A(r)
	case lvl < 8:
		runC06B(r)
	default:
		runC06C(r)
	}
}

// ---- level A: the aggregator alone ----

func runC06A(r *R) {
	w, f := r.W, r.F
	sp := genC06Spec(w)
	sp.Level = "A"
	nrep := 1 + w.Draw(8)
	counts := make([]int, nrep)
	for i := range counts {
		counts[i] = 1 + w.Draw(40)
	}
	pauseTab := []time.Duration{0, 0, 0, time.Millisecond, 300 * time.Millisecond, 1200 * time.Millisecond}
	pseed := uint64(w.Draw(1 << 20))
	arbitraryCancel := w.Draw(4) == 0 && sp.Kind == "jsonlines" // reports after the cancel are only allowed for the non-blocking aggregators
	cancelAt := time.Duration(w.Draw(3000)) * time.Millisecond
	endPause := []time.Duration{0, 0, time.Millisecond, 2 * time.Second}[w.Draw(4)]
	stalls := w.Draw(5) == 0
	// disk fault plan
	plan := simfs.NoPlan()
	faulty := false
	switch f.Biased(6, 3, 4) {
	case 1:
		plan.WriteErrAt, plan.WriteErr, faulty = int64(f.Draw(6000)), syscall.ENOSPC, true
	case 2:
		plan.WriteErrAt, plan.WriteErr, faulty = int64(f.Draw(6000)), syscall.EIO, true
	case 3:
		plan.ShortWrites, faulty = 1+f.Draw(100), true
	case 4:
		plan.CloseErr, faulty = syscall.EIO, true
	case 5:
		plan.Delay = time.Duration(1+f.Draw(50)) * time.Millisecond
	}
	// a sample the encoder cannot write (a NaN among its numbers), as the last report of reporter 0 and only without a
	// disk fault: whatever the aggregator makes of it, the output holds whole, valid lines of reported samples only
	encFault := sp.Kind == "jsonlines" && !faulty && plan.Delay == 0 && f.Draw(8) == 0
	encFired := false
	stale := f.Draw(5) == 0
	if stale {
		r.Note("A/destination-exists-with-old-lines")
	}
	r.Sample(map[string]any{"level": "A", "aggregator": sp.conf(), "reporters": nrep, "reports": counts, "arbitrary_cancel": arbitraryCancel, "disk_fault": fmt.Sprintf("%+v", plan), "stalls": stalls, "unencodable_last_sample": encFault})

	var (
		reports  []*c06Report
		runErr   error
		runDone  bool
		cancelSq uint64
		cancelT  time.Duration
		disk     *simfs.Fs
		content  []byte
		overlap  bool
		t0       time.Time
	)
	res := r.Sim(simrt.Config{Horizon: time.Hour, Grace: 3 * time.Second, Stalls: stalls, StallMax: 2 * time.Second, MaxSteps: 300000}, true, func() {
		t0 = time.Now()
		disk = simfs.New()
		disk.MkdirAll("/results", 0o755)
		if stale {
			// the destination exists already and holds the lines of an earlier run: a result file is this run's alone
			disk.WriteFile(sp.Path, []byte("1.000\tstale\t1\t1\t1\t1\t1\t0\t1\t1\t0\t200\n{\"tag\":\"stale\",\"n\":1}\nleft over from the run before\n"))
		}
		p := plan
		disk.Plans[sp.Path] = &p
		GlobalFs.Set(disk)
		aggr, err := decodeAggregator(sp.conf())
		if err != nil {
			if faulty {
				return
			}
			panic(fmt.Sprintf("aggregator config does not decode: %v", err))
		}
		ctx, cancel := context.WithCancel(context.Background())
		defer cancel()
		aggrDone := make(chan struct{})
		go func() {
			runErr = aggr.Run(ctx, core.AggregatorDeps{Log: zap.NewNop()})
			runDone = true
			close(aggrDone)
		}()
		repDone := make(chan struct{}, nrep)
		inFlight := 0
		for ri := 0; ri < nrep; ri++ {
			ri := ri
			go func() {
				defer func() { repDone <- struct{}{} }()
				for k := 0; k < counts[ri]; k++ {
					h := simrt.Split(pseed, uint64(ri*1000+k))
					if d := pauseTab[h%uint64(len(pauseTab))]; d > 0 {
						time.Sleep(d)
					}
					if ctx.Err() != nil && !arbitraryCancel {
						return
					}
					if runDone && strings.HasPrefix(sp.Kind, "phout") {
						return // a dead phout aggregator would block its reporters for ever; the engine stops the pool in that case
					}
					tag := fmt.Sprintf("r%d_%d", ri, k)
					s, line, ts := makeSample(sp.Kind, tag, h)
					if encFault && ri == 0 && k == counts[0]-1 {
						if js, ok := s.(*jsonSample); ok {
							js.F = math.NaN()
							encFired = true
						}
					}
					rep := &c06Report{Tag: tag, Line: line, Created: ts}
					reports = append(reports, rep)
					inFlight++
					if inFlight > 1 {
						overlap = true
					}
					aggr.Report(s)
					inFlight--
					rep.Returned, rep.Ret, rep.RetT = true, simrt.Seq(), time.Since(t0)
				}
			}()
		}
		if arbitraryCancel {
			time.Sleep(cancelAt)
		} else {
			// the engine's contract: the aggregator's context is cancelled only after the last report returned
			waitN := nrep
			for waitN > 0 {
				select {
				case <-repDone:
					waitN--
				case <-aggrDone:
					// aggregator died (disk fault): stop waiting for reporters that may be blocked on it
					waitN = 0
				}
			}
			if endPause > 0 {
				time.Sleep(endPause)
			}
		}
		cancelSq, cancelT = simrt.Seq(), time.Since(t0)
		cancel()
		<-aggrDone
		content, _ = disk.Content(sp.Path)
		for k, v := range disk.Fired {
			for i := 0; i < v; i++ {
				r.Fault("disk:"+k, true)
			}
		}
	})
	GlobalFs.Set(simfs.New())
	if res.Class != simrt.OK || r.Failed() || disk == nil {
		return
	}
	if overlap {
		r.NonTrivial()
	}
	_ = cancelT
	opened, closed := disk.OpenCount(sp.Path)
	diskFaultFired := len(disk.Fired) > 0 && !(len(disk.Fired) == 1 && disk.Fired["short-read"] > 0)
	if plan.Delay > 0 && len(disk.Fired) == 0 {
		diskFaultFired = false
	}
	byTag, nlines := parseOutput(r, sp.Kind, content, diskFaultFired)
	if r.Failed() {
		return
	}
	made := map[string]*c06Report{}
	var total, beforeCancel int
	for _, rep := range reports {
		made[rep.Tag] = rep
		total++
		if rep.Returned && rep.Ret < cancelSq {
			beforeCancel++
		}
	}
	for tag, ls := range byTag {
		rep := made[tag]
		if rep == nil {
			r.Fail("output/unknown-sample/"+sp.Kind, "the output contains a sample with tag %q that was never reported", tag)
			continue
		}
		if len(ls) > 1 {
			r.Fail("output/duplicate-line/"+sp.Kind, "sample %q was written %d times", tag, len(ls))
		}
		if rep.Line != "" && ls[0] != rep.Line {
			r.Fail("output/wrong-line/"+sp.Kind+"/"+lineDiffClass(ls[0], rep.Line), "sample %q was written as\n  %q\nwant (documented field order, creation timestamp to the millisecond)\n  %q", tag, ls[0], rep.Line)
		}
	}
	if opened > 0 && closed != opened {
		r.Fail("output/not-closed/"+sp.Kind, "the result file was opened %d times and closed %d times when Run returned", opened, closed)
	}
	if encFired {
		// (how many of the other samples reach the file after the encoder has failed is not judged: the lines that are
		// there are whole, valid and of reported samples, each once - checked above)
		r.Note("A/unencodable-sample-reported")
		r.Fault("sample:unencodable", true)
		return
	}
	if diskFaultFired {
		// under an injected disk error: never garbage (checked above), and the failure is reported: samples that
		// the aggregator accepted did not reach the file, so its Run must not end as a success
		r.Note("A/disk-fault-fired")
		for _, k := range []string{"write-error", "short-write", "close-error"} {
			if disk.Fired[k] > 0 && runErr == nil {
				r.Fail("disk-error-swallowed/"+sp.Kind+"/"+k, "the result file met %s %d times (plan %+v) but the aggregator's Run returned nil; %d lines are on disk, %d reports were made", k, disk.Fired[k], plan, nlines, total)
				break
			}
		}
		return
	}
	dropped := droppedFrom(runErr)
	if runErr != nil && dropped == 0 {
		r.Fail("run-error-without-cause/"+sp.Kind, "aggregator Run returned %q although the disk did not fail", runErr)
		return
	}
	if strings.HasPrefix(sp.Kind, "phout") && dropped > 0 {
		r.Fail("phout-dropped", "phout reported dropped samples: %v", runErr)
	}
	if !arbitraryCancel {
		if nlines+dropped != total {
			r.Fail("completeness/"+sp.Kind+"/"+cmpWord(nlines+dropped, total), "%d reports were made and had returned before the end-of-run cancel; the output has %d lines and the aggregator counted %d dropped (queue %d, buffer %s, flush %s)", total, nlines, dropped, sp.Queue, sp.Buffer, sp.FlushInt)
		}
		r.Note("A/after-last-report")
	} else {
		if nlines+dropped < beforeCancel || nlines+dropped > total {
			r.Fail("completeness/"+sp.Kind+"/arbitrary-cancel", "%d reports had returned before the cancel, %d were made in total; the output has %d lines + %d counted dropped", beforeCancel, total, nlines, dropped)
		}
		r.Note("A/arbitrary-cancel")
	}
	if dropped > 0 {
		r.Note("A/drops-counted")
	}
}

func lineDiffClass(got, want string) string {
	g, w := strings.Split(got, "\t"), strings.Split(want, "\t")
	if len(g) != len(w) {
		return "field-count"
	}
	for i := range g {
		if g[i] != w[i] {
			switch i {
			case 0:
				return "timestamp"
			case 1:
				return "tag"
			default:
				return "fields"
			}
		}
	}
	return "other"
}

// ---- level B: engine + reporting gun + real aggregator ----

type c06Engine struct {
	sp      c06Spec
	inst    int
	tokens  int
	shot    time.Duration
	disk    *simfs.Fs
	log     *stubs.Log
	eng     *engine.Engine
	met     engine.Metrics
	aggrErr error
}

type aggrEnd struct {
	core.Aggregator
	e *c06Engine
}

func (a *aggrEnd) Run(ctx context.Context, deps core.AggregatorDeps) error {
	err := a.Aggregator.Run(ctx, deps)
	a.e.aggrErr = err
	return err
}

func buildC06Engine(sp c06Spec, inst, tokens int, rate float64, dur time.Duration, shot shotScript, logger *zap.Logger) (*c06Engine, error) {
	e := &c06Engine{sp: sp, inst: inst, tokens: tokens}
	e.disk = simfs.New()
	e.disk.MkdirAll("/results", 0o755)
	GlobalFs.Set(e.disk)
	aggr, err := decodeAggregator(sp.conf())
	if err != nil {
		return nil, err
	}
	// the error the aggregator itself ends with (a cancelled Engine.Run returns the cancellation, not this one)
	aggr = &aggrEnd{Aggregator: aggr, e: e}
	e.log = stubs.NewLog()
	script := stubs.DefaultGunScript()
	script.Report = true
	script.ShotDur = shot.dur
	script.JSONSamples = sp.Kind == "jsonlines"
	script.Closable, script.ReportOnClose, script.CloseDur = sp.CloseReports, sp.CloseReports, sp.CloseDur
	fac := &stubs.GunFactory{Log: e.log, Script: script}
	startup, err := decodeSchedule(map[string]interface{}{"type": "once", "times": inst})
	if err != nil {
		return nil, err
	}
	var rps interface{} = map[string]interface{}{"type": "once", "times": tokens}
	if rate > 0 {
		rps = map[string]interface{}{"type": "const", "ops": rate, "duration": dur.String()}
	}
	e.met = newMetrics()
	pool := engine.InstancePoolConfig{
		Provider:        stubs.NewScriptProvider(e.log, -1),
		Aggregator:      aggr,
		NewGun:          fac.New,
		StartupSchedule: startup,
		NewRPSSchedule:  func() (core.Schedule, error) { return decodeSchedule(rps) },
	}
	e.eng = engine.New(logger, e.met, engine.Config{Pools: []engine.InstancePoolConfig{pool}})
	return e, nil
}

func runC06B(r *R) {
	w := r.W
	sp := genC06Spec(w)
	sp.Level = "B"
	if sp.Kind == "jsonlines" && sp.Queue < 64 {
		sp.Queue = 64
	}
	inst := 1 + w.Draw(6)
	tokens := 1 + w.Draw(120)
	shots := genShots(w, 10*time.Millisecond)
	stalls := w.Draw(5) == 0
	// in a third of the runs the caller cancels the run at a drawn instant
	cancelAt := time.Duration(0)
	if w.Draw(3) == 0 {
		cancelAt = time.Duration(1+w.Draw(2000)) * time.Millisecond
	}
	cancelled := false
	var cancelSeq uint64
	sp.CloseReports = w.Draw(3) == 0
	sp.CloseDur = []time.Duration{0, time.Millisecond, 300 * time.Millisecond}[w.Draw(3)]
	r.Sample(map[string]any{"level": "B", "guns_report_while_closing": sp.CloseReports, "aggregator": sp.conf(), "instances": inst, "tokens": tokens, "shots": shots.String(), "stalls": stalls})
	var (
		e       *c06Engine
		runErr  error
		content []byte
	)
	res := r.Sim(simrt.Config{Horizon: 12 * time.Hour, Grace: 3 * time.Second, Stalls: stalls, StallMax: 2 * time.Second, MaxSteps: 300000}, true, func() {
		var err error
		e, err = buildC06Engine(sp, inst, tokens, 0, 0, shots, zap.NewNop())
		if err != nil {
			panic(err)
		}
		ctx, cancel := context.WithCancel(context.Background())
		defer cancel()
		if cancelAt > 0 {
			go func() {
				time.Sleep(cancelAt)
				cancelled = true
				cancelSeq = simrt.Seq()
				cancel()
			}()
		}
		runErr = e.eng.Run(ctx)
		// the pool is finished when the engine's background tasks have ended: everything reported until then is in the file
		e.eng.Wait()
		content, _ = e.disk.Content(sp.Path)
	})
	GlobalFs.Set(simfs.New())
	if res.Class != simrt.OK || r.Failed() || e == nil {
		return
	}
	if cancelled && runErr != nil && droppedFrom(runErr) == 0 && errors.Is(runErr, context.Canceled) {
		r.Note("B/cancelled-mid-run")
		runErr = nil
	}
	byTag, nlines := parseOutput(r, sp.Kind, content, false)
	reported, beforeCancel := 0, 0
	for _, ev := range e.log.Snapshot() {
		if (ev.Kind == "close-report" || ev.Kind == "shoot-out") && (!cancelled || ev.Seq < cancelSeq) {
			beforeCancel++
		}
		if ev.Kind == "close-report" {
			reported++
			if len(byTag[fmt.Sprintf("i%d_close", ev.Inst)]) > 1 {
				r.Fail("output/duplicate-line/"+sp.Kind, "the sample reported while gun %d was closing was written twice", ev.Inst)
			}
		}
		if ev.Kind == "shoot-out" {
			reported++
			tag := fmt.Sprintf("i%d_s%d", ev.Inst, ev.N)
			if len(byTag[tag]) > 1 {
				r.Fail("output/duplicate-line/"+sp.Kind, "sample %q was written %d times", tag, len(byTag[tag]))
			}
		}
	}
	if inst > 1 && reported > 1 {
		r.NonTrivial()
	}
	dropped := droppedFrom(runErr)
	if cancelled && dropped == 0 {
		// a cancelled run returns the cancellation; the count of dropped samples is in the error the aggregator ended with
		dropped = droppedFrom(e.aggrErr)
	}
	if runErr != nil && droppedFrom(runErr) == 0 {
		r.Fail("engine-run-error", "Engine.Run returned %q", runErr)
		return
	}
	if cancelled {
		// the reference point of a cancelled run is the cancel: what was reported until then is in the output, what the
		// shots still in flight report afterwards may or may not be
		if nlines+dropped < beforeCancel || nlines+dropped > reported {
			r.Fail("completeness/engine-cancelled/"+sp.Kind+"/"+cmpWord(nlines+dropped, beforeCancel), "%d samples had been reported when the caller cancelled (%d until the pool finished); the output has %d lines + %d counted dropped", beforeCancel, reported, nlines, dropped)
		}
	} else if nlines+dropped != reported {
		r.Fail("completeness/engine/"+sp.Kind+"/"+cmpWord(nlines+dropped, reported), "the guns reported %d samples before their pool finished; the output has %d lines + %d counted dropped when Engine.Run returned", reported, nlines, dropped)
	}
	if o, c := e.disk.OpenCount(sp.Path); o != c {
		r.Fail("output/not-closed/"+sp.Kind, "the result file was opened %d times and closed %d times when the engine finished", o, c)
	}
	r.Note("B/engine")
}

// ---- level C: process termination on SIGINT / SIGTERM ----

type exitHook struct {
	onExit func(msg string)
}

func (h exitHook) OnWrite(e *zapcore.CheckedEntry, _ []zapcore.Field) {
	h.onExit(e.Message)
	runtime.Goexit()
}

func runC06C(r *R) {
	w, f := r.W, r.F
	sp := genC06Spec(w)
	sp.Level = "C"
	if sp.Kind == "jsonlines" {
		sp.Queue = 1024 // no drops: the drop count is not observable at process level
	}
	inst := 1 + w.Draw(4)
	rate := []float64{5, 20, 100}[w.Draw(3)]
	dur := []time.Duration{2 * time.Second, 10 * time.Second, time.Minute}[w.Draw(3)]
	shots := shotScript{Kind: "fixed", Base: []time.Duration{0, time.Millisecond, 40 * time.Millisecond, 700 * time.Millisecond}[w.Draw(4)]}
	sig := []os.Signal{syscall.SIGINT, syscall.SIGTERM}[f.Draw(2)]
	sigAt := time.Duration(f.Draw(int(dur/time.Millisecond)+1500)) * time.Millisecond
	noSignal := f.Draw(6) == 0
	stalls := w.Draw(6) == 0
	// a slow result disk (every write / sync / close of the result file takes this long): the final drain may then
	// need more than the 3 s a SIGTERM allows (a stated, forced exit) but far less than the 30 s a SIGINT allows
	slowDisk := []time.Duration{0, 0, 0, 300 * time.Millisecond, 1500 * time.Millisecond, 4 * time.Second}[f.Draw(6)]
	r.Sample(map[string]any{"level": "C", "slow_disk": slowDisk.String(), "aggregator": sp.conf(), "instances": inst, "rps": fmt.Sprintf("const(%v,%v)", rate, dur), "shots": shots.String(), "signal": fmt.Sprint(sig), "signal_at": sigAt.String(), "no_signal": noSignal})
	var (
		sigT          time.Duration = -1
		e             *c06Engine
		exited        bool
		exitMsg       string
		exitSq        uint64
		exitT         time.Duration
		snapshot      []byte
		sigSq         uint64
		inFlightAtSig int
		t0            time.Time
		closedAtExit  bool
	)
	res := r.Sim(simrt.Config{Horizon: 2 * time.Hour, Grace: time.Second, Stalls: stalls, StallMax: time.Second, MaxSteps: 400000}, true, func() {
		t0 = time.Now()
		simsig.Reset()
		markExit := func(msg string) {
			if exited {
				return
			}
			exited, exitMsg, exitSq, exitT = true, msg, simrt.Seq(), time.Since(t0)
			// only what was handed to the disk survives the process
			snapshot, _ = e.disk.Content(sp.Path)
			o, c := e.disk.OpenCount(sp.Path)
			closedAtExit = o == c
		}
		logger := zap.New(zapcore.NewNopCore(), zap.WithFatalHook(exitHook{markExit}))
		core := zapcore.NewCore(zapcore.NewJSONEncoder(zap.NewProductionEncoderConfig()), zapcore.AddSync(discardWriter{}), zapcore.FatalLevel)
		logger = zap.New(core, zap.WithFatalHook(exitHook{markExit}))
		var err error
		e, err = buildC06Engine(sp, inst, 0, rate, dur, shots, logger)
		if err != nil {
			panic(err)
		}
		if slowDisk > 0 {
			pl := simfs.NoPlan()
			pl.Delay = slowDisk
			e.disk.Plans[sp.Path] = &pl
		}
		done := make(chan struct{})
		go func() {
			defer close(done)
			cli.VerifRunAndAwaitTermination(e.eng, logger)
			markExit("returned normally")
		}()
		if !noSignal {
			go func() {
				time.Sleep(sigAt)
				if exited {
					return
				}
				in, out := e.log.Count("shoot-in"), e.log.Count("shoot-out")
				inFlightAtSig = in - out
				sigSq = simrt.Seq()
				sigT = time.Since(t0)
				simsig.Send(sig)
			}()
		}
		<-done
	})
	GlobalFs.Set(simfs.New())
	if res.Class != simrt.OK || r.Failed() || e == nil {
		return
	}
	if !exited {
		r.Fail("process-did-not-exit", "the termination logic neither returned nor exited")
		return
	}
	byTag, nlines := parseOutput(r, sp.Kind, snapshot, false)
	if r.Failed() {
		return
	}
	signalled := sigSq > 0 && sigSq < exitSq
	if signalled && inFlightAtSig > 0 {
		r.NonTrivial()
	}
	// every report made until the process was told to stop (or, without a signal, until it exited)
	// must be on disk when it exits; a shot still in flight at the signal may report later, after the
	// aggregator has been cancelled: such a sample may or may not appear
	refSq := exitSq
	if signalled {
		refSq = sigSq
	}
	missing, reported := 0, 0
	var firstMissing string
	for _, ev := range e.log.Snapshot() {
		if ev.Kind == "shoot-out" && ev.Seq < refSq {
			reported++
			tag := fmt.Sprintf("i%d_s%d", ev.Inst, ev.N)
			if len(byTag[tag]) == 0 {
				missing++
				if firstMissing == "" {
					firstMissing = tag
				}
			}
		}
	}
	how := "no-signal"
	if signalled {
		how = strings.ToLower(fmt.Sprint(sig))
		if sig == syscall.SIGINT {
			how = "sigint"
		} else {
			how = "sigterm"
		}
	}
	r.Note("C/" + how + "/" + exitClass(exitMsg))
	if os.Getenv("VERIF_DEBUG") != "" {
		fmt.Fprintf(os.Stderr, "C06C: how=%s exit=%q at %v reported=%d lines=%d missing=%d sigAt=%v inflight=%d\n", how, exitMsg, exitT, reported, nlines, missing, sigAt, inFlightAtSig)
	}
	if signalled && strings.Contains(exitMsg, "Interrupt timeout exceeded") {
		// the forced exit is stated behaviour, but only once the stated time is up: 30 s after a SIGINT, 3 s after a SIGTERM
		allowed := 3 * time.Second
		if sig == syscall.SIGINT {
			allowed = 30 * time.Second
		}
		if waited := exitT - sigT; waited < allowed-time.Millisecond {
			r.Fail("process-exit/gave-up-early/"+how, "the process gave up (%q) %v after the %s; the stated interrupt timeout is %v (slow disk %v; %d lines on disk, %d of %d earlier samples missing)", exitMsg, waited, how, allowed, slowDisk, nlines, missing, reported)
			return
		}
		if slowDisk > 0 {
			// the drain legitimately needed more than the stated time
			r.Note("C/timeout-exit-on-slow-disk")
			return
		}
	}
	if stalls && strings.Contains(exitMsg, "timeout exceeded") {
		// the forced exit when the 3 s / 30 s interrupt timeout runs out is pandora's stated behaviour; with injected
		// stalls (tasks descheduled for up to a second at a time) the drain can legitimately take longer than that.
		// Without stalls nothing in these runs takes that long, and a timeout exit is judged like any other.
		r.Note("C/timeout-exit-under-injected-stalls")
		return
	}
	if d := droppedFrom(e.aggrErr); d > 0 && missing <= d {
		// (a slow disk can make even the large queue of these runs overflow: the bounded-queue aggregator counted the
		// samples it dropped in the error it ended with)
		r.Note("C/drops-counted-by-the-aggregator")
		missing = 0
	}
	if missing > 0 {
		r.Fail("process-exit/lost-samples/"+how, "the process exited (%q) at %v after %s; %d of the %d samples reported before the stop request are not in the result file (%d lines on disk; first missing %s; %s queue %d buffer %s)",
			exitMsg, exitT, how, missing, reported, nlines, firstMissing, sp.Kind, sp.Queue, sp.Buffer)
	}
	if !closedAtExit {
		r.Fail("process-exit/output-not-closed/"+how, "the process exited (%q) at %v after %s with the result file still open", exitMsg, exitT, how)
	}
}

func exitClass(msg string) string {
	switch {
	case strings.Contains(msg, "returned normally"):
		return "normal"
	case strings.Contains(msg, "Engine interrupted"):
		return "interrupted"
	case strings.Contains(msg, "timeout"):
		return "timeout"
	case strings.Contains(msg, "failed"):
		return "failed"
	}
	return "other"
}

type discardWriter struct{}

func (discardWriter) Write(p []byte) (int, error) { return len(p), nil }
