package props

import (
	"fmt"
	"strings"
	"syscall"

	"verifsim/simfs"
	"verifsim/simrt"
)

// ---- C07: ammo decoding fidelity (uri, uripost, raw, http/json) ----

func init() {
	Register(&Prop{
		ID:    "C07",
		Run:   runC07,
		Level: "exploration",
		Rule: "a run = a generated list of 1-8 abstract requests (method, path+query, binary / empty / newline- and '['-containing bodies, tags with spaces, Host, header sets, in-file [Header: value] lines between entries) rendered by an independent renderer into uri, uripost, raw or http/json (lines, pretty-printed, array) " +
			"with a drawn layout (blank lines, surrounding whitespace, CRLF, missing final newline), placed on the simulated disk with drawn read chunking and (0,nil) reads; the real provider (preload on or off) runs as one task, 1-3 consumer tasks Acquire/Release for 1-3 passes; " +
			"the delivered sequence must equal the abstract list repeated per pass; in a separate fault batch a read error (EIO) is injected at a byte offset: entries wholly before it are delivered unchanged and the provider ends with the error; non-trivial = at least two entries and two passes, or the fault fired; distinct = distinct schedule-trace hash",
		Components: map[string]string{
			"components/providers/http (provider, decoders, ammo, util)": "real", "core/config + plugin registry": "real", "disk": "simulated (simfs: chunked / zero-length / failing reads)",
			"consumers": "harness tasks", "clock": "simulated",
		},
	})
}

func runC07(r *R) {
	w, f := r.W, r.F
	kinds := []string{"uri", "uripost", "raw", "json-lines", "json-pretty", "json-array", "uri", "uripost", "raw", "json-lines", "json-pretty", "json-array", "uri-inline"}
	kind := kinds[w.Draw(len(kinds))]
	if r.Mode != "" {
		kind = r.Mode
	}
	format, typ := kind, kind
	l := genLayout(w)
	if strings.HasPrefix(kind, "json") {
		format, typ = "json", "http/json"
		l.JSONMode = map[string]int{"json-lines": 0, "json-pretty": 1, "json-array": 2}[kind]
		if kind == "json-array" && w.Draw(2) == 0 {
			l.JSONMode = 3
		}
	}
	inline := kind == "uri-inline" // the uri provider fed from the `uris` list of its configuration: same lines, no file
	if inline {
		format, typ = "uri", "uri"
		l = layout{}
	}
	items := genFile(w, format, 8)
	passes := 1 + w.Draw(3)
	preload := w.Draw(3) == 0
	cons := 1 + w.Draw(3)
	file := renderFile(format, items, l)
	pass := expectedHTTP(format, items)
	n := len(pass)

	plan := simfs.NoPlan()
	plan.ReadChunk = []int{0, 0, 1, 2, 3, 7, 16, 64, 4096, 65536}[w.Draw(10)]
	if w.Draw(3) == 0 {
		plan.ZeroReads = []int{w.Draw(4), 4 + w.Draw(30), 40 + w.Draw(100)}
	}
	plan.EOFWithData = w.Draw(5) == 0
	faultAt := int64(-1)
	if f.Biased(4, 3, 4) == 1 && len(file) > 0 && !inline {
		faultAt = faultOffset(f, file)
		plan.ReadErrAt, _ = faultAt, syscall.EIO
		// one time in three the error is transient: that Read call fails, the next one succeeds
		plan.ReadErrOnce = f.Draw(3) == 0
	}
	transient := plan.ReadErrOnce
	r.Sample(map[string]any{"format": kind, "layout": l.String(), "entries": n, "passes": passes, "preload": preload, "consumers": cons, "read_chunk": plan.ReadChunk, "zero_reads": plan.ZeroReads, "eio_at": faultAt, "eio_transient": transient, "file": clipB(file)})
	if (n >= 2 && passes >= 2) || faultAt >= 0 {
		r.NonTrivial()
	}
	r.Note("format:" + kind)
	conf := map[string]interface{}{"type": typ, "file": "/ammo/ammo.txt", "passes": passes, "preload": preload}
	pr := provRun{Conf: conf, Files: map[string][]byte{"/ammo/ammo.txt": file}, Plans: map[string]simfs.Plan{"/ammo/ammo.txt": plan}, Consumers: cons, Extract: extractHTTP}
	if inline {
		var uris []interface{}
		for _, ln := range strings.Split(strings.TrimSuffix(string(file), "\n"), "\n") {
			uris = append(uris, ln)
		}
		delete(conf, "file")
		conf["uris"] = uris
		pr.Files, pr.Plans = nil, nil
	}
	out := runProvider(r, pr, false)
	for k, v := range out.DiskFired {
		for i := 0; i < v; i++ {
			r.Fault("disk:"+k, true)
		}
	}
	laySig := kind
	switch out.Sim.Class {
	case simrt.Crash:
		r.Fail("CRASH/"+kind+"/"+frameSig(out.Sim.Stack), "%s\n%s\nfile: %s", out.Sim.Detail, out.Sim.Stack, clipB(file))
		return
	case simrt.Hang, simrt.Spin, simrt.Livelock:
		r.Fail("never-ends/"+kind, "%d items delivered, then: %s\nfile: %s", len(out.All), out.Sim.Detail, clipB(file))
		return
	}
	if faultAt >= 0 && out.DiskFired["read-eio"]+out.DiskFired["read-eio-transient"] > 0 {
		c07Fault(r, kind, out, pass, passes, file, faultAt, preload, transient)
		return
	}
	if out.NewErr != nil {
		r.Fail("rejected/construction/"+laySig, "a well-formed %s file was rejected when the provider was built: %v\nlayout %s\nfile: %s", kind, out.NewErr, l, clipB(file))
		return
	}
	if out.RunErr != nil {
		r.Fail("rejected/run/"+laySig, "a well-formed %s file made Provider.Run fail after %d items: %v\nlayout %s\nfile: %s", kind, len(out.All), out.RunErr, l, clipB(file))
		return
	}
	for _, e := range out.ExtractEr {
		r.Fail("bad-ammo/"+kind, "%s", e)
	}
	if out.BadAmmo > 0 {
		r.Fail("request-build-failed/"+kind, "Acquire could not build the request of %d delivered entries of a well-formed file\nfile: %s", out.BadAmmo, clipB(file))
		return
	}
	want := n * passes
	if len(out.All) != want {
		cls := "dropped"
		if len(out.All) > want {
			cls = "duplicated"
		}
		detail := ""
		if l.NoFinalNL {
			detail = " (the file has no final newline)"
		}
		r.Fail("entries-"+cls+"/"+laySig, "%d entries x %d passes: %d items delivered, want %d%s; layout %s\nfile: %s", n, passes, len(out.All), want, detail, l, clipB(file))
		return
	}
	var ref []gotReq
	for p := 0; p < passes; p++ {
		ref = append(ref, pass...)
	}
	if cons == 1 {
		for i, g := range out.All {
			if !sameReq(g, ref[i]) {
				r.Fail("entry-altered/"+laySig+"/"+c07Diff(g, ref[i]), "item %d (entry %d of pass %d) was delivered as\n  %s\nwant\n  %s\nlayout %s\nfile: %s", i, i%n, i/n, g.key(), ref[i].key(), l, clipB(file))
				return
			}
		}
	} else {
		for ci, seq := range out.PerCons {
			if !subsequenceOf(seq, ref) {
				r.Fail("entry-altered/"+laySig+"/multi-consumer", "the %d items of consumer %d are not a subsequence of the expected delivery order\nfile: %s", len(seq), ci, clipB(file))
				return
			}
		}
		// multiset
		cnt := map[string]int{}
		for _, g := range ref {
			cnt[g.key()]++
		}
		for _, g := range out.All {
			cnt[g.key()]--
		}
		for k, v := range cnt {
			if v != 0 {
				r.Fail("entry-altered/"+laySig+"/multiset", "delivered multiset differs from the file x passes at %s (%+d)", k, -v)
				return
			}
		}
	}
	// ids are unique
	ids := map[uint64]bool{}
	for _, g := range out.All {
		if ids[g.ID] {
			r.Fail("duplicate-ammo-id/"+kind, "ammo id %d handed out twice", g.ID)
			break
		}
		ids[g.ID] = true
	}
}

func c07Diff(a, b gotReq) string {
	switch {
	case a.Method != b.Method:
		return "method"
	case a.URI != b.URI:
		return "uri"
	case a.Host != b.Host:
		return "host"
	case a.Tag != b.Tag:
		return "tag"
	case string(a.Body) != string(b.Body):
		return "body"
	}
	return "headers"
}

// c07Fault: after an injected read error the provider may fail, but what it delivered must be a prefix of the
// expected sequence made of entries wholly before the fault offset, never altered data.
func c07Fault(r *R, kind string, out *provOut, pass []gotReq, passes int, file []byte, faultAt int64, preload bool, transient bool) {
	r.Note("fault-batch")
	n := len(pass)
	if transient && out.NewErr == nil && out.RunErr == nil {
		// a transient error may be survived (the read is repeated and succeeds): then nothing may be missing or
		// altered; the checks below compare what was delivered, here the count
		if len(out.All) != n*passes {
			r.Fail("transient-read-error-swallowed/"+kind, "a transient read error at byte %d of %d was injected (one Read call failed, the next succeeded); no error was reported, yet %d items were delivered instead of %d (%d entries x %d passes)\nfile: %s",
				faultAt, len(file), len(out.All), n*passes, n, passes, clipB(file))
			return
		}
	} else if out.NewErr == nil && out.RunErr == nil {
		// the json array is read when the provider is built; every other path must report the error
		r.Fail("read-error-swallowed/"+kind, "a read error at byte %d of %d was injected (and fired) but neither construction nor Provider.Run reported an error; %d items delivered", faultAt, len(file), len(out.All))
		return
	}
	if len(out.All) > n*passes {
		r.Fail("fault/too-many/"+kind, "%d items delivered from a file of %d entries x %d passes with a read error at byte %d", len(out.All), n, passes, faultAt)
		return
	}
	var ref []gotReq
	for p := 0; p < passes; p++ {
		ref = append(ref, pass...)
	}
	if len(out.PerCons) == 1 {
		for i, g := range out.All {
			if !sameReq(g, ref[i]) {
				r.Fail("fault/entry-altered/"+kind, "with a read error at byte %d item %d was delivered as\n  %s\nwant\n  %s\nfile: %s", faultAt, i, g.key(), ref[i].key(), clipB(file))
				return
			}
		}
	} else {
		for ci, seq := range out.PerCons {
			if !subsequenceOf(seq, ref) {
				r.Fail("fault/entry-altered/"+kind, "with a read error at byte %d the items of consumer %d are not a subsequence of the expected order", faultAt, ci)
				return
			}
		}
	}
	if out.BadAmmo > 0 || len(out.ExtractEr) > 0 {
		// the decoder framed an entry out of the bytes around the failed read: the entries of a well-formed file are
		// delivered as written or not at all
		r.Fail("fault/garbage-entry/"+kind, "with a read error at byte %d (transient=%v) %d entries were handed out that cannot be built into a request (%v); error reported: construction %v, run %v\nfile: %s",
			faultAt, transient, out.BadAmmo+len(out.ExtractEr), out.ExtractEr, out.NewErr, out.RunErr, clipB(file))
		return
	}
	if faultAt == 0 && len(out.All) > 0 {
		r.Fail("fault/delivered-past-error/"+kind, "%d items delivered although not a single byte of the file could be read", len(out.All))
	}
	_ = fmt.Sprint
}
