package props

import (
	"context"
	"errors"
	"fmt"
	"strings"
	"syscall"
	"time"

	"github.com/yandex/pandora/core"
	"github.com/yandex/pandora/core/aggregator"
	"github.com/yandex/pandora/core/engine"
	"go.uber.org/zap"

	"verifsim/simfs"
	"verifsim/simrt"
	"verifsim/stubs"
)

// ---- C08: limit/passes semantics and clean end-of-ammo on every provider ----

func init() {
	Register(&Prop{
		ID:    "C08",
		Run:   runC08,
		Level: "exploration",
		Rule: "a run = one provider kind (uri, uripost, raw, http/json as lines / pretty-printed / array, each with preload on or off; grpc/json; http/scenario; grpc/scenario; the generic json provider over a file or inline source) built through the real config decode and plugin factory " +
			"from a generated ammo file of 1-5 entries on the simulated disk (drawn read chunking), with limit in {0,1,2,3,n-1,n,n+1,2n+1} and passes in {0..3}; either Provider.Run as one task and 1-4 consumer tasks looping Acquire/Release (unbounded configurations are cancelled after a drawn number of items), " +
			"or the real engine with 1-4 instances, a stub gun and a once() profile larger than the bound; non-trivial = the bound was reached with at least two consumers/instances or a consumer was blocked in Acquire when the provider ended; distinct = distinct schedule-trace hash",
		Components: map[string]string{
			"components/providers/http (provider, decoders)": "real", "components/providers/grpc/grpcjson": "real", "components/providers/scenario (http, grpc)": "real",
			"core/provider (json decode provider, queue)": "real", "lib/ioutil2": "real", "core/config + plugin registry": "real", "core/engine (engine mode)": "real",
			"gun": "stub (engine mode) / consumer tasks", "aggregator": "real discard", "disk": "simulated (simfs)", "clock": "simulated",
		},
	})
}

type c08Spec struct {
	Kind     string
	Preload  bool
	Limit    int
	Passes   int
	Entries  int
	Cons     int
	Engine   bool
	Chunk    int
	Stalls   bool
	CancelAt int
	// ProfileFirst: (engine mode) the RPS profile has fewer tokens than the ammo bound and the disk is slow
	ProfileFirst bool
	SlowRead     time.Duration
	ShotDur      time.Duration
}

var c08Kinds = []string{"uri", "uripost", "raw", "json-lines", "json-pretty", "json-array", "grpc/json", "http/scenario", "grpc/scenario", "json-file", "json-inline", "uri-inline"}

func scenarioYAML(grpc bool, weights []int) string {
	var b strings.Builder
	if grpc {
		b.WriteString("requests: [ ]\ncalls:\n")
		for i := range weights {
			fmt.Fprintf(&b, "  - name: c%d\n    tag: t%d\n    call: target.TargetService.Hello\n    payload: '{\"hello\": \"w%d\"}'\n", i, i, i)
		}
	} else {
		b.WriteString("calls: [ ]\nrequests:\n")
		for i := range weights {
			fmt.Fprintf(&b, "  - name: c%d\n    method: GET\n    uri: /r%d\n    tag: t%d\n", i, i, i)
		}
	}
	b.WriteString("scenarios:\n")
	for i, w := range weights {
		fmt.Fprintf(&b, "  - name: s%d\n    weight: %d\n    min_waiting_time: 0\n    requests:\n      - c%d(1)\n", i, w, i)
	}
	return b.String()
}

func gcd(a, b int) int {
	for b != 0 {
		a, b = b, a%b
	}
	return a
}

// c08Build renders the ammo file and the provider configuration; entries is the number of ammo items of one pass.
func c08Build(w *simrt.Stream, kind string, n int, preload bool, limit, passes int) (conf map[string]interface{}, files map[string][]byte, entries int, desc string) {
	files = map[string][]byte{}
	entries = n
	switch kind {
	case "uri", "uripost", "raw", "json-lines", "json-pretty", "json-array":
		format := kind
		typ := kind
		l := genLayout(w)
		if strings.HasPrefix(kind, "json") {
			format, typ = "json", "http/json"
			l.JSONMode = map[string]int{"json-lines": 0, "json-pretty": 1, "json-array": 2}[kind]
			if kind == "json-array" && w.Draw(2) == 0 {
				l.JSONMode = 3
			}
		}
		var items []absItem
		for i := 0; i < n; i++ {
			items = append(items, absItem{Req: genReq(w, format, i)})
		}
		// the well-formed layouts that do not depend on the last-entry handling (that is C07's subject)
		l.NoFinalNL = false
		files["/ammo/ammo.txt"] = renderFile(format, items, l)
		conf = map[string]interface{}{"type": typ, "file": "/ammo/ammo.txt", "limit": limit, "passes": passes, "preload": preload}
		desc = l.String()
	case "uri-inline":
		// the uri provider fed from the `uris` list of its configuration instead of a file
		var uris []interface{}
		for i := 0; i < n; i++ {
			q := genReq(w, "uri", i)
			line := q.URI
			if q.Tag != "" {
				line += " " + q.Tag
			}
			uris = append(uris, line)
		}
		conf = map[string]interface{}{"type": "uri", "uris": uris, "limit": limit, "passes": passes, "preload": preload}
	case "grpc/json":
		var b strings.Builder
		for i := 0; i < n; i++ {
			fmt.Fprintf(&b, "{\"tag\": \"t%d\", \"call\": \"target.TargetService.Hello\", \"metadata\": {\"k\": \"v%d\"}, \"payload\": {\"hello\": \"w%d\"}}\n", i, i, i)
		}
		files["/ammo/grpc.json"] = []byte(b.String())
		conf = map[string]interface{}{"type": "grpc/json", "file": "/ammo/grpc.json", "limit": limit, "passes": passes}
		if w.Draw(3) == 0 {
			// chosencases on the grpc/json provider: only the listed tags are delivered, limit and passes count those
			var cc []interface{}
			for i := 0; i < n; i++ {
				if w.Draw(2) == 0 {
					cc = append(cc, fmt.Sprintf("t%d", i))
				}
			}
			if len(cc) == 0 {
				cc = append(cc, "t0")
			}
			conf["chosencases"] = cc
			entries = len(cc)
			desc = fmt.Sprintf("chosencases=%v", cc)
		}
	case "http/scenario", "grpc/scenario":
		// n entries = sum of weight/gcd over 1..3 scenarios
		k := 1 + w.Draw(3)
		if k > n {
			k = n
		}
		parts := make([]int, k)
		for i := range parts {
			parts[i] = 1
		}
		for i := k; i < n; i++ {
			parts[w.Draw(k)]++
		}
		g := 0
		for _, p := range parts {
			g = gcd(g, p)
		}
		mult := 1 + w.Draw(3)
		weights := make([]int, k)
		entries = 0
		for i, p := range parts {
			weights[i] = p * mult
			entries += p / g
		}
		if k == 1 {
			entries = 1
		}
		files["/ammo/scenario.yaml"] = []byte(scenarioYAML(kind == "grpc/scenario", weights))
		conf = map[string]interface{}{"type": kind, "file": "/ammo/scenario.yaml", "limit": limit, "passes": passes}
		desc = fmt.Sprintf("weights=%v", weights)
	case "json-file", "json-inline":
		var b strings.Builder
		for i := 0; i < n; i++ {
			fmt.Fprintf(&b, "{\"n\": %d, \"s\": \"v%d\"}\n", i, i)
		}
		if kind == "json-file" {
			files["/ammo/generic.json"] = []byte(b.String())
			conf = map[string]interface{}{"type": "json", "source": map[string]interface{}{"type": "file", "path": "/ammo/generic.json"}, "limit": limit, "passes": passes}
		} else {
			conf = map[string]interface{}{"type": "json", "source": map[string]interface{}{"type": "inline", "data": b.String()}, "limit": limit, "passes": passes}
		}
	}
	return
}

func c08MainFile(files map[string][]byte) string {
	for k := range files {
		return k
	}
	return ""
}

func runC08(r *R) {
	w := r.W
	sp := c08Spec{}
	sp.Kind = c08Kinds[w.Draw(len(c08Kinds))]
	if r.Mode != "" && r.Mode != "engine" && r.Mode != "direct" {
		sp.Kind = r.Mode
	}
	n := 1 + w.Draw(5)
	sp.Preload = w.Draw(2) == 1 && (strings.HasPrefix(sp.Kind, "uri") || sp.Kind == "raw" || strings.HasPrefix(sp.Kind, "json-") && !strings.HasSuffix(sp.Kind, "file") && !strings.HasSuffix(sp.Kind, "inline"))
	limTab := []int{0, 1, 2, 3, n - 1, n, n + 1, 2*n + 1}
	sp.Limit = limTab[w.Draw(len(limTab))]
	sp.Passes = w.Draw(4)
	sp.Cons = 1 + w.Draw(4)
	sp.Engine = w.Draw(4) == 0
	if r.Mode == "engine" {
		sp.Engine = true
	} else if r.Mode == "direct" {
		sp.Engine = false
	}
	sp.Chunk = []int{0, 0, 1, 3, 7, 64, 4096}[w.Draw(7)]
	sp.Stalls = w.Draw(6) == 0
	sp.ProfileFirst = w.Draw(3) == 0
	sp.ShotDur = []time.Duration{0, 30 * time.Millisecond, 100 * time.Millisecond}[w.Draw(3)]
	sp.SlowRead = []time.Duration{3 * time.Millisecond, 7 * time.Millisecond, 20 * time.Millisecond, 45 * time.Millisecond, 60 * time.Millisecond, 90 * time.Millisecond, 130 * time.Millisecond}[w.Draw(7)]
	if r.Mode == "" && w.Draw(6) == 0 || r.Mode == "cancel-in-read" {
		// focused cell: a streaming HTTP provider is cancelled by the engine (the load profile ends first) while it
		// is inside a slow read - of a line, of a blank line, or of the end of the file before the next pass
		sp.Kind = []string{"uri", "uripost", "raw"}[w.Draw(3)]
		sp.Preload, sp.Engine, sp.ProfileFirst = false, true, true
		sp.Limit, sp.Passes = 0, []int{0, 0, 7}[w.Draw(3)]
		n = 1 + w.Draw(2)
		sp.Cons = 1 + w.Draw(2)
		sp.SlowRead = []time.Duration{45 * time.Millisecond, 60 * time.Millisecond, 90 * time.Millisecond, 130 * time.Millisecond, 400 * time.Millisecond}[w.Draw(5)]
		sp.ShotDur = []time.Duration{0, 10 * time.Millisecond, 30 * time.Millisecond, 100 * time.Millisecond, 250 * time.Millisecond}[w.Draw(5)]
		sp.Chunk = []int{0, 4, 16, 64}[w.Draw(4)]
	}
	conf, files, entries, desc := c08Build(w, sp.Kind, n, sp.Preload, sp.Limit, sp.Passes)
	sp.Entries = entries
	bound := minBound(sp.Limit, sp.Passes, entries)
	if bound < 0 {
		sp.CancelAt = entries*2 + 1 + w.Draw(6)
	}
	which := "unbounded"
	switch {
	case sp.Limit > 0 && sp.Passes > 0:
		which = "limit+passes"
	case sp.Limit > 0:
		which = "limit"
	case sp.Passes > 0:
		which = "passes"
	}
	kindSig := sp.Kind
	if sp.Preload {
		kindSig += "+preload"
	}
	ctxSig := kindSig + "/" + which
	r.Sample(map[string]any{"provider": conf, "entries": entries, "consumers": sp.Cons, "engine": sp.Engine, "read_chunk": sp.Chunk, "layout": desc, "bound": bound, "cancel_after": sp.CancelAt})
	plans := map[string]simfs.Plan{}
	eofWithData := w.Draw(5) == 0 // the read that delivers the file's last bytes reports io.EOF in the same call
	if mf := c08MainFile(files); mf != "" && (sp.Chunk > 0 || eofWithData) {
		p := simfs.NoPlan()
		p.ReadChunk = sp.Chunk
		p.EOFWithData = eofWithData
		if w.Draw(3) == 0 {
			p.ZeroReads = []int{w.Draw(5), 5 + w.Draw(20)}
		}
		plans[mf] = p
	}
	if sp.Engine {
		c08Engine(r, sp, conf, files, plans, bound, ctxSig)
		return
	}
	// fault cell: a read of the ammo file fails (for good, or for one Read call) at a drawn offset. A provider that
	// then delivers fewer items than its bounds say must report the failure: a short delivery that ends as a clean
	// end of ammo is not "exactly min(limit, passes x entries) items"
	faultAt := int64(-1)
	faultKind := ""
	if mf := c08MainFile(files); mf != "" && bound >= 0 && len(files[mf]) > 0 && r.F.Draw(5) == 0 {
		p, ok := plans[mf]
		if !ok {
			p = simfs.NoPlan()
		}
		faultAt = faultOffset(r.F, files[mf])
		switch r.F.Draw(6) {
		case 0:
			// the file cannot be opened at all (EACCES)
			p.OpenErr, faultKind = syscall.EACCES, "open-error"
		case 1:
			// reading works, going back to the start for the next pass does not
			p.SeekErr, faultKind = true, "seek-error"
		default:
			p.ReadErrAt = faultAt
			p.ReadErrOnce = r.F.Draw(3) == 0
			faultKind = "read-error"
		}
		plans[mf] = p
	}
	out := runProvider(r, provRun{Conf: conf, Files: files, Plans: plans, Consumers: sp.Cons, CancelAfter: sp.CancelAt, Stalls: sp.Stalls}, false)
	for k, v := range out.DiskFired {
		for i := 0; i < v; i++ {
			r.Fault("disk:"+k, true)
		}
	}
	switch out.Sim.Class {
	case simrt.Crash:
		r.Fail("CRASH/"+kindSig+"/"+frameSig(out.Sim.Stack), "%s\n%s", out.Sim.Detail, out.Sim.Stack)
		return
	case simrt.Spin:
		r.Fail("provider-spins/"+ctxSig, "%d of %d items delivered (bound %d), then: %s\n%s", len(out.All), bound, bound, out.Sim.Detail, out.Sim.Stack)
		return
	case simrt.Livelock:
		r.Fail("provider-livelock/"+ctxSig, "%d items delivered (bound %d), then: %s", len(out.All), bound, out.Sim.Detail)
		return
	case simrt.Hang:
		blocked := 0
		for _, e := range out.EndSeen {
			if !e {
				blocked++
			}
		}
		if out.RunDone {
			r.Fail("consumers-blocked-after-run-returned/"+ctxSig, "Provider.Run returned %v at %v after %d items (bound %d) but %d of %d consumers are still blocked in Acquire: %s", out.RunErr, out.RunAt, len(out.All), bound, blocked, sp.Cons, out.Sim.Detail)
		} else {
			r.Fail("provider-never-finishes/"+ctxSig, "%d items delivered (bound %d, limit %d, passes %d, %d entries); Provider.Run has not returned and %d of %d consumers are blocked: %s", len(out.All), bound, sp.Limit, sp.Passes, entries, blocked, sp.Cons, out.Sim.Detail)
		}
		return
	}
	if faultAt >= 0 && out.DiskFired["read-eio"]+out.DiskFired["read-eio-transient"]+out.DiskFired["open-error"]+out.DiskFired["seek-error"] > 0 {
		r.Note("fault-cell/" + faultKind + "/" + kindSig)
		r.NonTrivial()
		got := len(out.All)
		switch {
		case got > bound:
			r.Fail("fault/too-many/"+ctxSig, "%d items delivered with a read error at byte %d, the bound is %d", got, faultAt, bound)
		case out.NewErr == nil && out.RunErr == nil && got < bound:
			r.Fail(faultKind+"-swallowed/"+ctxSig, "the ammo file failed (%s) at byte %d (transient=%v); the provider was built and Run returned nil, yet only %d of min(limit %d, passes %d x %d entries) = %d items were delivered: the run ends as a clean end of ammo",
				faultKind, faultAt, plans[c08MainFile(files)].ReadErrOnce, got, sp.Limit, sp.Passes, entries, bound)
		}
		return
	}
	if out.NewErr != nil {
		r.Fail("construction-failed/"+kindSig, "building the provider from a well-formed file failed: %v", out.NewErr)
		return
	}
	for _, e := range out.ExtractEr {
		r.Fail("bad-ammo/"+kindSig, "%s", e)
	}
	if out.BadAmmo > 0 {
		r.Fail("acquire-failed/"+kindSig, "Acquire returned ok=false with an ammo %d times on a well-formed file", out.BadAmmo)
	}
	got := len(out.All)
	if sp.Cons >= 2 && got >= 2 {
		r.NonTrivial()
	}
	r.Note("kind:" + kindSig)
	r.Note("bound:" + which)
	if bound >= 0 {
		if got != bound {
			cls := "too-few"
			if got > bound {
				cls = "too-many"
			}
			r.Fail("count/"+cls+"/"+ctxSig, "%d ammo items delivered, want min(limit %d, passes %d x %d entries) = %d (non-zero bounds only)", got, sp.Limit, sp.Passes, entries, bound)
		}
		if out.RunErr != nil {
			r.Fail("run-error-at-bound/"+ctxSig, "Provider.Run returned %q after its bounds were reached (%d items delivered, bound %d): want nil", out.RunErr, got, bound)
		}
	} else {
		if !out.Cancelled {
			r.Fail("early-end/"+ctxSig, "an unbounded provider ended by itself after %d items (Run returned %v)", got, out.RunErr)
		} else if out.RunErr != nil && !errors.Is(out.RunErr, context.Canceled) {
			r.Fail("run-error-after-cancel/"+ctxSig, "Provider.Run returned %q after the cancel: want nil or the context error", out.RunErr)
		}
		if got < sp.CancelAt {
			r.Fail("early-end/"+ctxSig, "only %d items delivered before the cancel after %d", got, sp.CancelAt)
		}
	}
	// promptness: nothing in this run sleeps, so the end must follow the last item / the cancel at once
	ref := out.LastGotAt
	if out.Cancelled && out.CancelAt > ref {
		ref = out.CancelAt
	}
	if out.RunDone && out.RunAt-ref > time.Second && !sp.Stalls {
		r.Fail("slow-return/"+ctxSig, "Provider.Run returned %v after the last delivered item", out.RunAt-ref)
	}
	for ci, e := range out.EndSeen {
		if !e {
			r.Fail("consumer-without-end/"+ctxSig, "consumer %d never observed end of ammo", ci)
		}
	}
}

// c08Engine: the provider under the real engine with a stub gun and a once() profile larger than the bound.
func c08Engine(r *R, sp c08Spec, conf map[string]interface{}, files map[string][]byte, plans map[string]simfs.Plan, bound int, ctxSig string) {
	tokens := 40
	if bound >= 0 {
		tokens = bound + 3 + sp.Cons
	}
	// in a third of the runs the load profile ends before the ammo does: the engine cancels the provider, possibly
	// while it is reading (the disk is slow then), and the run must still end successfully
	profileFirst := false
	if sp.ProfileFirst {
		profileFirst = true
		if bound > 1 {
			tokens = 1 + bound/2
		} else if bound < 0 {
			tokens = 7
		} else {
			profileFirst = false
		}
	}
	var (
		runErr   error
		runDone  bool
		waitDone bool
		shots    int
		newErr   error
		log      *stubs.Log
	)
	res := r.Sim(simrt.Config{Horizon: 30 * time.Minute, Grace: 5 * time.Second, Stalls: sp.Stalls, StallMax: time.Second, MaxSteps: 200000, TickLimit: 300_000}, false, func() {
		disk := simfs.New()
		for name, data := range files {
			disk.WriteFile(name, data)
		}
		for name, p := range plans {
			pp := p
			disk.Plans[name] = &pp
		}
		GlobalFs.Set(disk)
		if profileFirst {
			for name := range files {
				pl := simfs.NoPlan()
				if old, ok := disk.Plans[name]; ok {
					pl = *old
				}
				// (so slow that the end of the profile can fall into any read of the provider: a line, a blank line, the
				// read that finds the end of the file before the next pass)
				pl.Delay = sp.SlowRead
				if pl.ReadChunk == 0 {
					pl.ReadChunk = 16
				}
				if sz := len(files[name]); sz/pl.ReadChunk > 200 {
					// (a file with very long lines: keep one pass within some 200 slow reads, or the run outlasts the horizon)
					pl.ReadChunk = sz/200 + 1
				}
				pp := pl
				disk.Plans[name] = &pp
			}
		}
		p, err := decodeProvider(conf)
		if err != nil {
			newErr = err
			return
		}
		log = stubs.NewLog()
		script := stubs.DefaultGunScript()
		if profileFirst {
			// shots take a while: the provider reads the next portion of the file while the last shots are in flight
			d := sp.ShotDur
			script.ShotDur = func(int, int) time.Duration { return d }
		}
		fac := &stubs.GunFactory{Log: log, Script: script}
		startup, err := decodeSchedule(map[string]interface{}{"type": "once", "times": sp.Cons})
		if err != nil {
			panic(err)
		}
		pool := engine.InstancePoolConfig{
			Provider:        &stubs.RecProvider{Provider: p, Log: log},
			Aggregator:      aggregator.NewDiscard(),
			NewGun:          fac.New,
			StartupSchedule: startup,
			NewRPSSchedule: func() (core.Schedule, error) {
				if profileFirst {
					// spread over time so that the end of the profile falls into a read
					return decodeSchedule(map[string]interface{}{"type": "const", "ops": 20, "duration": fmt.Sprintf("%dms", tokens*50)})
				}
				return decodeSchedule(map[string]interface{}{"type": "once", "times": tokens})
			},
		}
		eng := engine.New(zap.NewNop(), newMetrics(), engine.Config{Pools: []engine.InstancePoolConfig{pool}})
		ctx, cancel := context.WithCancel(context.Background())
		defer cancel()
		runErr = eng.Run(ctx)
		runDone = true
		eng.Wait()
		waitDone = true
		shots = log.Count("shoot-in")
	})
	GlobalFs.Set(simfs.New())
	if log != nil && !runDone {
		shots = log.Count("shoot-in")
	}
	switch res.Class {
	case simrt.Crash:
		r.Fail("CRASH/engine/"+strings.Split(ctxSig, "/")[0]+"/"+frameSig(res.Stack), "%s\n%s", res.Detail, res.Stack)
		return
	case simrt.Spin:
		r.Fail("provider-spins/"+ctxSig, "under the engine, %d shots fired (bound %d): %s\n%s", shots, bound, res.Detail, res.Stack)
		return
	case simrt.Hang, simrt.Livelock:
		r.Fail("engine-run-never-ends/"+ctxSig, "under the engine with %d instances and once(%d): %d shots fired (bound %d); Run returned=%v Wait returned=%v: %s", sp.Cons, tokens, shots, bound, runDone, waitDone, res.Detail)
		return
	}
	if newErr != nil {
		r.Fail("construction-failed/"+strings.Split(ctxSig, "/")[0], "building the provider from a well-formed file failed: %v", newErr)
		return
	}
	r.Note("engine-mode")
	if log != nil {
		for _, e := range log.Snapshot() {
			if e.Kind == "prov-run-out" {
				what := "nil"
				if e.Err != "" {
					what = e.Err
					if len(what) > 40 {
						what = what[:40]
					}
				}
				r.Note("engine-mode/provider-run-returned:" + what)
			}
		}
	}
	if sp.Cons >= 2 {
		r.NonTrivial()
	}
	want := tokens
	if bound >= 0 && bound < tokens {
		want = bound
	}
	if profileFirst {
		r.Note("engine-mode/profile-ends-before-ammo/" + ctxSig)
	}
	if runErr != nil {
		r.Fail("engine-run-error/"+ctxSig, "Engine.Run returned %q for a pool whose provider reached its bounds (%d shots, bound %d): want a successful end", runErr, shots, bound)
		return
	}
	if shots != want {
		r.Fail("engine-shots/"+ctxSig, "%d shots fired under the engine, want %d (bound %d, profile once(%d))", shots, want, bound, tokens)
	}
}
