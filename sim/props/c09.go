package props

import (
	"bytes"
	"fmt"
	"net/http"
	"net/textproto"
	"runtime"
	"strings"
	"time"

	"verifsim/simnet"
	"verifsim/simrt"
)

// ---- C09: HTTP wire fidelity ----

func init() {
	Register(&Prop{
		ID:    "C09",
		Run:   runC09,
		Level: "exploration",
		Rule: "a run = a generated ammo file (1-6 requests with unique markers; uri, uripost, raw, http/json) + a provider 'headers' option list that overlaps the in-file and per-entry headers (same name in another case, Host) + gun options (ssl on/off with TLS over the simulated network, keep-alives on/off, shared client on/off, 1-5 instances, target given as address or host name); " +
			"the real provider, the real http gun (three runs in five), http2 gun (HTTP/2 over TLS) or connect gun (through a CONNECT tunnel the target sets up; the CONNECT authority and count are checked), net/http transport and engine fire at a real net/http server inside the bubble over the simulated network (drawn latency and segmentation); every request received is compared with the reference (entry headers win over configured ones, Host from the ammo else from the configuration else the target's host) and the connections are counted; " +
			"non-trivial = at least two instances shot concurrently or a configured header collided with an ammo header; distinct = distinct schedule-trace hash",
		Components: map[string]string{
			"components/providers/http": "real", "components/guns/http (BaseGun, client, transport config)": "real", "net/http client transport": "real (stdlib, un-yielded)", "core/engine": "real",
			"target": "real net/http server in the bubble", "network": "simulated (simnet)", "disk": "simulated (simfs)", "aggregator": "recording stub", "clock": "simulated",
		},
	})
}

func runC09(r *R) {
	w := r.W
	kinds := []string{"uri", "uripost", "raw", "json"}
	format := kinds[w.Draw(len(kinds))]
	if r.Mode != "" {
		format = r.Mode
	}
	typ := map[string]string{"uri": "uri", "uripost": "uripost", "raw": "raw", "json": "http/json"}[format]
	l := layout{JSONMode: w.Draw(3)}
	items := genFile(w, format, 6)
	for i := range items {
		if items[i].Req == nil && strings.EqualFold(items[i].HK, "Connection") {
			items[i].HK = "X-Conn"
		}
		if q := items[i].Req; q != nil {
			for j := range q.Hdr {
				if strings.EqualFold(q.Hdr[j][0], "Connection") {
					q.Hdr[j][0] = "X-Conn"
				}
			}
		}
	}
	// some uri / uripost entries are written as absolute URLs (with either scheme): host and scheme of the ammo URL
	// must not decide where and how the request is sent, only the Host header
	absHost := map[string]string{}
	if format == "uri" || format == "uripost" {
		for i := range items {
			if q := items[i].Req; q != nil && w.Draw(5) == 0 {
				h := []string{"abs.example.com", "shop.example.com:8443"}[w.Draw(2)]
				scheme := []string{"http", "https"}[w.Draw(2)]
				absHost[q.URI] = h
				ui := ""
				if w.Draw(3) == 0 {
					ui = "robot:secret@" // userinfo of the ammo URL is no header of the ammo: nothing is derived from it
				}
				q.URI = scheme + "://" + ui + h + q.URI
			}
		}
	}
	file := renderFile(format, items, l)
	for i := range items {
		if q := items[i].Req; q != nil {
			if j := strings.Index(q.URI, "://"); j > 0 {
				q.URI = q.URI[j+3+strings.Index(q.URI[j+3:], "/"):]
			}
		}
	}
	// configured headers: some collide with ammo headers (possibly in another case), some are new
	var confHdr []string
	confMap := map[string]string{} // canonical -> value (first wins, as Header.Add + values[0]/all)
	nconf := w.Draw(4)
	collide := false
	for i := 0; i < nconf; i++ {
		k := genHdrKeys[w.Draw(len(genHdrKeys))]
		if k == "Connection" {
			k = "X-Cfg"
		}
		switch w.Draw(4) {
		case 0:
			k = strings.ToLower(k)
		case 1:
			k = "Host"
		}
		ck := textproto.CanonicalMIMEHeaderKey(k)
		if _, dup := confMap[ck]; dup {
			continue
		}
		v := fmt.Sprintf("cfg-%d", i)
		if ck == "Host" {
			v = "cfg.host.example"
		}
		confMap[ck] = v
		confHdr = append(confHdr, fmt.Sprintf("[%s: %s]", k, v))
	}
	ssl := w.Draw(3) == 0
	keepAlive := w.Draw(3) != 0
	// the gun: http, http2 (always over TLS, one multiplexed connection per client) or connect (the target is
	// reached through a tunnel set up with a CONNECT request to the target address)
	gunKind := []string{"http", "http", "http", "http2", "connect"}[w.Draw(5)]
	switch gunKind {
	case "http2":
		ssl, keepAlive = true, true
	case "connect":
		ssl = false
	}
	shared := w.Draw(4) == 0
	inst := 1 + w.Draw(5)
	passes := 1 + w.Draw(2)
	target := []string{"10.0.0.5:8080", "10.0.0.5:8080", "target.sim:80", "[fd00::5]:8443"}[w.Draw(4)]
	lat := []time.Duration{100 * time.Microsecond, time.Millisecond, 20 * time.Millisecond}[w.Draw(3)]
	chunk := 0
	if !ssl {
		chunk = []int{0, 0, 1, 7, 100}[w.Draw(5)]
	}
	pass := expectedHTTP(format, items)
	for i := range pass {
		if h, ok := absHost[pass[i].URI]; ok {
			pass[i].Host = h // the host written in the entry's own URL is the ammo's Host
		}
	}
	n := len(pass)
	for _, g := range pass {
		for ck := range confMap {
			if _, ok := g.Hdr[ck]; ok {
				collide = true
			}
			if ck == "Host" && g.Host != "" {
				collide = true
			}
		}
	}
	// the gun's diagnostics read the request (and its body) before it is sent: they must not change what is sent
	diag := ""
	var diagTrace, diagAnsw map[string]interface{}
	debugLog := false
	if w.Draw(4) == 0 {
		tr, dump := w.Bool(), w.Bool()
		diagTrace = map[string]interface{}{"trace": tr, "dump": dump}
		diag = fmt.Sprintf("trace=%v dump=%v", tr, dump)
		// debug-level logging (`log: {level: debug}`): the gun then logs the request and reads the answer's body for its log
		if debugLog = w.Draw(2) == 0; debugLog {
			diag += " debug-log"
		}
		if f := []string{"", "all", "warning"}[w.Draw(3)]; f != "" {
			diagAnsw = map[string]interface{}{"enabled": true, "path": "/dev/null", "filter": f}
			diag += " answlog=" + f
		}
	}
	total := n * passes
	r.Sample(map[string]any{"format": format, "entries": n, "passes": passes, "config_headers": confHdr, "gun": gunKind, "diagnostics": diag, "ssl": ssl, "keep_alive": keepAlive, "shared_client": shared, "instances": inst, "target": target, "latency": lat.String(), "chunk": chunk, "file": clipB(file)})
	if inst >= 2 || collide {
		r.NonTrivial()
	}
	r.Note("format:" + format)
	r.Note("gun:" + gunKind)
	if collide {
		r.Note("config-header-collides-with-ammo-header")
	}
	ammo := map[string]interface{}{"type": typ, "file": "/ammo/ammo.txt", "passes": passes}
	if len(confHdr) > 0 {
		hs := make([]interface{}, len(confHdr))
		for i, h := range confHdr {
			hs[i] = h
		}
		ammo["headers"] = hs
	}
	// one run in five: the documented ammo middleware header/date stamps every request (default header Date, or a named one)
	mwName := ""
	if w.Draw(5) == 0 {
		mw := map[string]interface{}{"type": "header/date"}
		mwName = "Date"
		if w.Draw(3) != 0 {
			mwName = "X-Sent-At"
			mw["headerName"] = mwName
		}
		ammo["middlewares"] = []interface{}{mw}
		r.Note("middleware:header/date")
	}
	gun := map[string]interface{}{"type": gunKind, "target": target, "ssl": ssl, "disable-keep-alives": !keepAlive}
	if shared {
		gun["shared-client"] = map[string]interface{}{"enabled": true, "client-number": 1 + w.Draw(2)}
	}
	if diagTrace != nil {
		gun["httptrace"] = diagTrace
		r.Note("gun-diagnostics-on")
	}
	if diagAnsw != nil {
		gun["answlog"] = diagAnsw
	}
	// one run in five spreads its requests over 4-9 s: connections (and tunnels) must live on past the dial and
	// handshake timeouts of the client
	var rps map[string]interface{}
	if w.Draw(5) == 0 {
		secs := 4 + w.Draw(6)
		rps = map[string]interface{}{"type": "const", "ops": float64(total+2) / float64(secs), "duration": fmt.Sprintf("%ds", secs)}
		r.Note("requests-spread-over-seconds")
	}
	var tgt *httpTarget
	// one run in five: the scheduler stalls tasks for up to 500 ms at scheduling points, so that instances are inside
	// different phases of their shots at the same time
	stalls := w.Draw(5) == 0
	if stalls {
		r.Note("injected-stalls")
	}
	res := runHTTPPool(r, httpPoolSpec{Ammo: ammo, Gun: gun, Instances: inst, Tokens: total + 2, RPS: rps, Stalls: stalls, DebugLog: debugLog, Files: map[string][]byte{"/ammo/ammo.txt": file}},
		func(nw *simnet.Net) {
			nw.Latency = lat
			if chunk > 0 {
				nw.Plan = func(idx int, addr string) simnet.ConnPlan {
					p := simnet.NoPlan()
					p.ChunkC2S, p.ChunkS2C = chunk, chunk*3
					return p
				}
			}
		},
		func(nw *simnet.Net) {
			tgt = startHTTPTargetTLS(nw, target, ssl, tlsOpts{H2: gunKind == "http2"}, nil)
		})
	if gunKind == "http2" {
		runtime.GC() // (pooled channels of x/net/http2 must not cross bubbles, see c19HTTP2)
		runtime.GC()
	}
	switch res.Sim.Class {
	case simrt.Crash:
		r.Fail("CRASH/"+frameSig(res.Sim.Stack), "%s\n%s", res.Sim.Detail, res.Sim.Stack)
		return
	case simrt.Hang, simrt.Livelock, simrt.Spin:
		r.Fail("run-never-ends/"+format, "%s (run returned=%v, %d samples)", res.Sim.Detail, res.RunDone, len(res.Samples))
		return
	}
	if res.DecodeErr != nil {
		r.Fail("config-rejected", "the pool configuration was rejected: %v", res.DecodeErr)
		return
	}
	if res.RunErr != nil {
		r.Fail("run-error/"+format, "Engine.Run returned %v against a healthy target", res.RunErr)
		return
	}
	seen := tgt.Seen()
	if len(seen) != total {
		r.Fail("request-count/"+format, "%d requests reached the target, the ammo has %d entries x %d passes = %d (samples: %d)", len(seen), n, passes, total, len(res.Samples))
		return
	}
	// reference per entry: ammo headers win, configured headers fill the gaps
	wantHost := func(g gotReq) string {
		if g.Host != "" {
			return g.Host
		}
		if h, ok := confMap["Host"]; ok {
			return h
		}
		h := target[:strings.LastIndex(target, ":")]
		return h
	}
	type exp struct {
		g    gotReq
		hdr  map[string][]string
		host string
	}
	var exps []exp
	for _, g := range pass {
		e := exp{g: g, hdr: map[string][]string{}, host: wantHost(g)}
		for k, v := range g.Hdr {
			e.hdr[k] = v
		}
		for ck, v := range confMap {
			if ck == "Host" {
				continue
			}
			if _, ok := e.hdr[ck]; !ok {
				e.hdr[ck] = []string{v}
			}
		}
		exps = append(exps, e)
	}
	used := make([]int, n)
	epoch := time.Date(2000, 1, 1, 0, 0, 0, 0, time.UTC) // the simulated clock starts here
	for _, s := range seen {
		if mwName != "" {
			// the middleware's stamp is the last value of its header: an HTTP date of the simulated clock, not later than
			// the arrival; everything else about the request is judged as without the middleware
			vals := s.Hdr[mwName]
			if len(vals) == 0 {
				r.Fail("middleware/header-date/missing", "%s %s arrived without the %s header the header/date middleware adds (received: %s)", s.Method, s.URI, mwName, hdrKey(s.Hdr, nil))
			} else {
				stamp := vals[len(vals)-1]
				ts, err := time.Parse(http.TimeFormat, stamp)
				if err != nil || ts.Before(epoch) || ts.After(epoch.Add(s.At)) {
					r.Fail("middleware/header-date/value", "%s %s arrived at simulated %v with %s: %q, want an HTTP date between %v and the arrival", s.Method, s.URI, epoch.Add(s.At).Format(time.RFC3339Nano), mwName, stamp, epoch.Format(http.TimeFormat))
				}
				hc := map[string][]string{}
				for k, v := range s.Hdr {
					hc[k] = v
				}
				if len(vals) > 1 {
					hc[mwName] = vals[:len(vals)-1]
				} else {
					delete(hc, mwName)
				}
				s.Hdr = hc
			}
		}
		// match by the unique marker n=<i> in the URI
		idx := -1
		for i, e := range exps {
			if e.g.URI == s.URI {
				idx = i
				break
			}
		}
		if idx < 0 {
			r.Fail("uri-altered/"+format, "a request for %q reached the target; no ammo entry has that request URI (entries: %s)", s.URI, entryURIs(pass))
			return
		}
		used[idx]++
		e := exps[idx]
		if s.Method != e.g.Method {
			r.Fail("method-altered/"+format, "entry %s arrived with method %s, the ammo says %s", e.g.URI, s.Method, e.g.Method)
		}
		if !bytes.Equal(s.Body, e.g.Body) {
			r.Fail("body-altered/"+format, "entry %s arrived with body %s, the ammo says %s", e.g.URI, clipB(s.Body), clipB(e.g.Body))
		}
		if s.Host != e.host && !(e.g.Host == "" && strings.Trim(s.Host, "[]") == strings.Trim(e.host, "[]")) { // (an IPv6 target host may arrive with or without brackets)
			src := "the target's host"
			if e.g.Host != "" {
				src = "the ammo"
			} else if _, ok := confMap["Host"]; ok {
				src = "the configured Host header"
			}
			r.Fail("host/"+format+"/"+strings.ReplaceAll(src, " ", "-"), "entry %s arrived with Host %q, want %q (from %s; ammo host %q, configured headers %v, target %s)", e.g.URI, s.Host, e.host, src, e.g.Host, confHdr, target)
		}
		if s.TLS != ssl {
			r.Fail("scheme", "ssl=%v but the request arrived with TLS=%v", ssl, s.TLS)
		}
		for k, v := range e.hdr {
			got, ok := s.Hdr[k]
			if wireManaged[k] && k != "User-Agent" {
				continue
			}
			if !ok && len(v) == 1 && v[0] == "" && k == "User-Agent" {
				continue // an empty User-Agent is how net/http is told to send none
			}
			if !ok && gunKind == "http2" && k == "Cookie" && cookieCrumbs(v) == "" {
				continue // HTTP/2 carries cookies as crumbs: an empty Cookie header has none
			}
			if !ok {
				r.Fail("header-missing/"+format, "entry %s arrived without header %s: %v (received: %s)", e.g.URI, k, v, hdrKey(s.Hdr, nil))
				continue
			}
			if gunKind == "http2" && k == "Cookie" && cookieCrumbs(got) == cookieCrumbs(v) {
				// HTTP/2 carries a Cookie header as separate crumbs (RFC 7540 8.1.2.5); the receiver joins them with "; "
				continue
			}
			if strings.Join(got, "|") != strings.Join(v, "|") {
				cls := "header-altered"
				if _, inAmmo := e.g.Hdr[k]; inAmmo {
					if cv, inConf := confMap[k]; inConf && strings.Join(got, "|") == cv {
						cls = "config-header-overrides-ammo-header"
					}
				}
				r.Fail(cls+"/"+format, "entry %s arrived with %s: %v, want %v (ammo headers %s; configured headers %v)", e.g.URI, k, got, v, hdrKey(e.g.Hdr, nil), confHdr)
			}
		}
		for k := range s.Hdr {
			if _, ok := e.hdr[k]; !ok && !wireManaged[k] {
				r.Fail("header-added/"+format, "entry %s arrived with an extra header %s: %v (expected: %s)", e.g.URI, k, s.Hdr[k], hdrKey(e.hdr, nil))
			}
		}
	}
	for i, u := range used {
		if u != passes {
			r.Fail("entry-count/"+format, "entry %s reached the target %d times, want %d (passes)", exps[i].g.URI, u, passes)
		}
	}
	// connections
	conns := map[string]int{}
	for _, s := range seen {
		conns[s.Remote]++
	}
	ta, _ := netResolve(res.Net, target)
	for _, c := range res.Conns {
		ca, _ := netResolve(res.Net, c.Addr)
		if ca != ta {
			r.Fail("dial-address", "a connection was dialled to %s, the configured target is %s", c.Addr, target)
		}
	}
	if gunKind == "connect" {
		cs := tgt.Connects()
		for _, a := range cs {
			if ca, _ := netResolve(res.Net, a); ca != ta {
				r.Fail("connect-authority", "the tunnel was requested with CONNECT %s, the configured target is %s", a, target)
				break
			}
		}
		// a transport whose callers are stalled (injected stalls) may finish dialling a tunnel after
		// an idle connection has already served the waiting request: that tunnel then stays unused - net/http's way, not a
		// fault of the gun. Every connection that carried requests still needs its CONNECT.
		if len(cs) < len(conns) || (len(cs) != len(conns) && !stalls) {
			r.Fail("connect-count", "%d CONNECT requests for %d connections that carried requests", len(cs), len(conns))
		}
	}
	switch {
	case !keepAlive:
		if len(conns) != total {
			r.Fail("connections/keep-alive-off", "keep-alives are disabled: %d requests arrived over %d connections, want one connection per request", total, len(conns))
		}
	case !shared:
		if len(conns) > inst {
			r.Fail("connections/keep-alive-on", "keep-alives are enabled with per-instance clients: %d instances sent %d requests over %d connections (more connections than instances)", inst, total, len(conns))
		}
	}
	if len(res.Samples) != total {
		r.Fail("sample-count/"+format, "%d requests fired, %d samples reported", total, len(res.Samples))
	}
}

func entryURIs(pass []gotReq) string {
	var u []string
	for _, g := range pass {
		u = append(u, g.URI)
	}
	return strings.Join(u, " ")
}

func netResolve(n *simnet.Net, addr string) (string, error) {
	// the canonical "ip:port" of an address on the simulated network
	c, err := n.Resolve(addr)
	return c, err
}

// cookieCrumbs: the cookie pairs of a Cookie header, whatever the spacing after the semicolons.
func cookieCrumbs(vals []string) string {
	var out []string
	for _, v := range vals {
		for _, c := range strings.Split(v, ";") {
			out = append(out, strings.TrimSpace(c))
		}
	}
	return strings.Join(out, ";")
}
