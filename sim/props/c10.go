package props

import (
	"fmt"
	"strings"
	"time"

	"google.golang.org/grpc/codes"

	"verifsim/simnet"
	"verifsim/simrt"
)

// ---- C10: sample result coding (HTTP guns; the gRPC and scenario clauses are added with their harnesses) ----

func init() {
	Register(&Prop{
		ID:    "C10",
		Run:   runC10,
		Level: "exploration",
		Rule: "a run = 1-8 ammo entries (uri or http/json; unique tags or none; drawn paths) x 1-2 passes fired by 1-6 instances of the real http or connect gun through the real engine at a byte-level scripted peer on the simulated network; per entry the tape draws the peer's behaviour: any status 200-599 and 999 with bodies of several sizes, " +
			"or (fault batch) close / reset before, inside the headers or inside the body, garbage, bad chunking, bad version, negative Content-Length, no response until the client's timeout, 100-continue, HTTP/1.0 close-delimited bodies, huge bodies and headers, plus refused and timed-out connects; auto-tag settings are drawn; " +
			"oracle over the recording aggregator: one sample per fired request, proto code = status the peer sent (0 without a response), net code 0 iff the exchange completed and non-zero otherwise, tag per the documented rule, ids unique; further modes: the grpc and grpc/scenario guns against all 17 status codes (documented mapping table), and the http/scenario gun on the generated descriptions of C15 (one sample per executed step tagged <scenario>.<step>, the failing step carrying the failure); non-trivial = at least two instances shot concurrently or a fault fired; distinct = distinct schedule-trace hash",
		Components: map[string]string{
			"components/guns/http (BaseGun, http and connect guns)": "real", "components/providers/http": "real", "core/aggregator/netsample (sample, errno extraction)": "real", "core/engine": "real",
			"net/http client transport": "real (stdlib, un-yielded)", "target": "byte-level scripted peer in the bubble", "network": "simulated (simnet: latency, segmentation, refused / delayed connects, resets)", "aggregator": "recording stub", "clock": "simulated",
		},
	})
}

func runC10(r *R) {
	if (r.Mode == "" && r.W.Draw(4) == 0) || r.Mode == "grpc" {
		c10GRPC(r)
		return
	}
	if (r.Mode == "" && r.W.Draw(6) == 0) || r.Mode == "scenario" {
		c10Scenario(r)
		return
	}
	faults := r.F.Biased(2, 1, 2) == 1
	if r.Mode == "faults" {
		faults = true
	} else if r.Mode == "nofaults" {
		faults = false
	}
	sp := genHTTPFaultSpec(r, faults)
	r.Sample(sp.describe())
	out := runHTTPFaults(r, sp)
	res := out.Res
	if len(out.Runaway) > 0 {
		r.Fail("redirect-loop-followed-without-bound", "the target answers entries %v with a redirect to the same URI; with redirect=%v the client followed it for more than 64 hops per shot (a shot inside such a loop never ends: no sample, the instance never takes its next ammo)", out.Runaway, sp.FollowRedirects)
		return
	}
	if sp.Inst >= 2 || faults {
		r.NonTrivial()
	}
	switch res.Sim.Class {
	case simrt.Crash:
		r.Fail("CRASH/"+frameSig(res.Sim.Stack), "%s\n%s", res.Sim.Detail, res.Sim.Stack)
		return
	case simrt.Hang, simrt.Livelock, simrt.Spin:
		r.Fail("run-never-ends", "%s (run returned=%v, %d samples)", res.Sim.Detail, res.RunDone, len(res.Samples))
		return
	}
	if res.DecodeErr != nil {
		r.Fail("config-rejected", "the pool configuration was rejected: %v", res.DecodeErr)
		return
	}
	if res.RunErr != nil {
		// C19's subject; here only the samples that were produced are judged
		r.Note("run-error")
	}
	samples := res.Samples
	if res.RunErr == nil && len(samples) != out.Fired {
		cls := "too-few"
		if len(samples) > out.Fired {
			cls = "too-many"
		}
		r.Fail("sample-count/"+cls, "%d requests were fired (%d entries x %d passes), %d samples were reported", out.Fired, sp.Entries, sp.Passes, len(samples))
	}
	// ids unique
	ids := map[uint64]int{}
	for _, s := range samples {
		ids[s.ID]++
	}
	for id, c := range ids {
		if c > 1 {
			r.Fail("duplicate-sample-id", "sample id %d was attached to %d samples of one run (%d instances)", id, c, sp.Inst)
			break
		}
	}
	// attribute samples to entries by tag
	byTag := map[string][]recSample{}
	for _, s := range samples {
		byTag[s.Tags] = append(byTag[s.Tags], s)
	}
	expTags := map[string][]int{}
	for i, t := range out.Expect {
		expTags[t] = append(expTags[t], i)
	}
	for t, ss := range byTag {
		if _, ok := expTags[t]; !ok {
			r.Fail("tag/unexpected", "a sample carries tag %q; the entries of this run must produce the tags %v (auto-tag enabled=%v uri-elements=%d no-tag-only=%v; ammo tags %q, paths %q); %d such samples", t, out.Expect, sp.AutoTag, sp.URIElems, sp.NoTagOnly, sp.Tags, sp.Paths, len(ss))
			return
		}
	}
	for t, ents := range expTags {
		want := len(ents) * sp.Passes
		if got := len(byTag[t]); got != want && res.RunErr == nil {
			r.Fail("tag/count", "%d samples carry tag %q, want %d (entries %v x %d passes)", got, t, want, ents, sp.Passes)
		}
	}
	// codes: per tag group the multiset of (proto, net-class) must match the behaviours of its entries
	for t, ents := range expTags {
		type code struct {
			proto int
			netOK bool
			tmo   bool
		}
		var allowed []map[string]bool // per entry: set of acceptable outcomes
		for _, i := range ents {
			b := sp.Behaviours[i]
			acc := map[string]bool{}
			key := func(proto int, netOK bool, timeout bool) string {
				return fmt.Sprintf("%d/%v/%v", proto, netOK, timeout)
			}
			switch {
			case b.GotResponse && b.BodyOK:
				acc[key(b.Status, true, false)] = true
			case b.GotResponse && !b.BodyOK:
				acc[key(b.Status, false, false)] = true
			case b.Timeout:
				acc[key(0, false, false)] = true
			default:
				acc[key(0, false, false)] = true
			}
			lostOnDeadConn := false
			if sp.KeepAlive {
				for _, ob := range sp.Behaviours {
					if ob.closesConn() {
						lostOnDeadConn = true
					}
				}
			}
			if lostOnDeadConn {
				// a request written to a kept-alive connection the peer has just closed fails without a response
				acc[key(0, false, false)] = true
			}
			if sp.TLSHang {
				// the connection this request needed may be one whose TLS handshake never completes: a timeout, net code 110
				acc[key(0, false, false)] = true
			}
			if sp.ConnFaults != "" {
				// the request may never have reached the peer
				acc[key(0, false, false)] = true
				acc[key(0, false, false)] = true
			}
			allowed = append(allowed, acc)
			_ = code{}
		}
		for _, s := range byTag[t] {
			// the property asks for a non-zero errno-style net code when the exchange failed; which one (110 for timeouts
			// as the http gun gives, 999 as a timeout wrapped by the connect dialer gives) is not part of it
			k := fmt.Sprintf("%d/%v/%v", s.Proto, s.Net == 0, false)
			if s.Net == 110 {
				r.Note("timeout-coded-110")
			}
			ok := false
			for _, acc := range allowed {
				if acc[k] {
					ok = true
				}
			}
			if !ok {
				var bs []string
				for _, i := range ents {
					b := sp.Behaviours[i]
					bs = append(bs, fmt.Sprintf("entry %d: %s status %d", i, b.Kind, b.Status))
				}
				cls := "proto-code"
				i0 := sp.Behaviours[ents[0]]
				switch {
				case len(ents) == 1 && s.Proto == i0.Status && i0.GotResponse && s.Net == 0 && !i0.BodyOK:
					cls = "net-code/zero-for-failed-exchange/" + i0.Kind
				case len(ents) == 1 && s.Proto == i0.Status && i0.GotResponse && s.Net != 0 && i0.BodyOK:
					cls = "net-code/nonzero-for-complete-exchange/" + i0.Kind
				case len(ents) == 1 && !i0.GotResponse && s.Net == 0:
					cls = "net-code/zero-without-response/" + i0.Kind
				case len(ents) == 1:
					cls = "proto-code/" + i0.Kind
				}
				r.Fail(cls, "a sample tagged %q has proto code %d, net code %d, error %q; the peer's behaviour for that tag: %s (connection faults: %q)", t, s.Proto, s.Net, clip(s.Err), strings.Join(bs, "; "), sp.ConnFaults)
				break
			}
		}
	}
}

// ---- gRPC clause: the documented mapping of call status to HTTP-style codes, tags, one sample per call ----

var c10Codes = []codes.Code{codes.OK, codes.Canceled, codes.Unknown, codes.InvalidArgument, codes.DeadlineExceeded, codes.NotFound, codes.AlreadyExists, codes.PermissionDenied,
	codes.ResourceExhausted, codes.FailedPrecondition, codes.Aborted, codes.OutOfRange, codes.Unimplemented, codes.Internal, codes.Unavailable, codes.DataLoss, codes.Unauthenticated,
	// a status number outside the standard 0..16 (grpc-go passes it through unchanged): anything else -> 500
	codes.Code(42), codes.Code(17)}

type grpcPlan struct {
	Entries  int
	Passes   int
	Inst     int
	Scenario bool
	Codes    []codes.Code    // status the server answers entry i with
	Slow     []time.Duration // handler delay (beyond the timeout: DeadlineExceeded at the client)
	Reset    []bool          // the connection is reset while the call is in flight
	Timeout  time.Duration
	Shared   bool
	// Assert (scenario only): the assert/response postprocessor of call i: 0 none, 1 payload contains the entry's name,
	// 2 status_code 200, 3 both, 4 payload contains a string that is never there. A failing assertion ends the
	// invocation: the calls after it are not made
	Assert []int
	// RefuseFrom > 0: every connection of the k-th and later gRPC clients (in the order the guns dial) is refused:
	// the target is up for warm-up and the first instances, down for the instances that come after
	RefuseFrom int
	// Untagged >= 0 (grpc/json ammo only): that entry has no "tag" field (the field is optional)
	Untagged int
}

func genGRPCPlan(r *R, faults bool) grpcPlan {
	w, f := r.W, r.F
	p := grpcPlan{Entries: 1 + w.Draw(8), Passes: 1 + w.Draw(2), Inst: 1 + w.Draw(4), Scenario: w.Draw(3) == 0, Timeout: []time.Duration{300 * time.Millisecond, time.Second}[w.Draw(2)], Shared: w.Draw(4) == 0}
	for i := 0; i < p.Entries; i++ {
		p.Codes = append(p.Codes, c10Codes[f.Draw(len(c10Codes))])
		slow, reset := time.Duration(0), false
		if faults {
			switch f.Draw(8) {
			case 0:
				slow = p.Timeout + 200*time.Millisecond
			case 1:
				slow = p.Timeout / 3
			case 2:
				reset = true
			}
		}
		p.Slow = append(p.Slow, slow)
		p.Reset = append(p.Reset, reset)
		a := 0
		if p.Scenario && w.Draw(3) == 0 {
			a = 1 + w.Draw(4)
		}
		p.Assert = append(p.Assert, a)
	}
	if faults && f.Draw(6) == 0 {
		p.RefuseFrom = 2 + f.Draw(p.Inst+1)
	}
	p.Untagged = -1
	if !p.Scenario && w.Draw(2) == 0 {
		p.Untagged = w.Draw(p.Entries)
	}
	return p
}

type grpcOutcome struct {
	Plan   grpcPlan
	Res    *httpPoolResult
	Calls  []grpcCall
	TagOf  []string // expected sample tag per entry
	Expect []int    // expected proto code per entry
	Fired  int
	// Stop: index of the first call whose assertion fails given the scripted statuses (len(entries)-1 when none does);
	// StopCertain: no reset makes a call's outcome uncertain
	Stop        int
	StopCertain bool
	MayFail     []bool // entries whose call may fail for transport reasons (reset): 503/Unavailable-like or the scripted code
}

// runGRPCPlan fires the entries (grpc/json ammo, or a gRPC scenario with one call per entry) at the scripted server.
func runGRPCPlan(r *R, p grpcPlan) *grpcOutcome {
	out := &grpcOutcome{Plan: p}
	target := "10.0.0.30:9090"
	files := map[string][]byte{}
	var ammo, gun map[string]interface{}
	if p.Scenario {
		var b strings.Builder
		b.WriteString("requests: [ ]\ncalls:\n")
		for i := 0; i < p.Entries; i++ {
			fmt.Fprintf(&b, "  - name: c%d\n    tag: tg%d\n    call: target.TargetService.Hello\n    metadata:\n      marker: m%d\n    payload: '{\"name\": \"n%d\"}'\n", i, i, i, i)
			switch p.Assert[i] {
			case 1:
				fmt.Fprintf(&b, "    postprocessors:\n      - type: assert/response\n        payload: [\"n%d\"]\n", i)
			case 2:
				b.WriteString("    postprocessors:\n      - type: assert/response\n        status_code: 200\n")
			case 3:
				fmt.Fprintf(&b, "    postprocessors:\n      - type: assert/response\n        payload: [\"Hello\", \"n%d\"]\n        status_code: 200\n", i)
			case 4:
				b.WriteString("    postprocessors:\n      - type: assert/response\n        payload: [\"never-there\"]\n")
			}
			out.TagOf = append(out.TagOf, fmt.Sprintf("sc.tg%d", i))
		}
		// one scenario running every call in order; a failing call does not stop a gRPC scenario unless a postprocessor fails
		b.WriteString("scenarios:\n  - name: sc\n    min_waiting_time: 0\n    requests:\n")
		for i := 0; i < p.Entries; i++ {
			fmt.Fprintf(&b, "      - c%d(1)\n", i)
		}
		files["/ammo/scenario.yaml"] = []byte(b.String())
		ammo = map[string]interface{}{"type": "grpc/scenario", "file": "/ammo/scenario.yaml", "limit": p.Passes}
		gun = map[string]interface{}{"type": "grpc/scenario", "target": target, "timeout": p.Timeout.String()}
	} else {
		var b strings.Builder
		for i := 0; i < p.Entries; i++ {
			if i == p.Untagged {
				// no tag field: the sample's tag is empty (or the __EMPTY__ marker), never another entry's tag
				fmt.Fprintf(&b, "{\"call\": \"target.TargetService.Hello\", \"metadata\": {\"marker\": \"m%d\"}, \"payload\": {\"name\": \"n%d\"}}\n", i, i)
				out.TagOf = append(out.TagOf, "")
				continue
			}
			fmt.Fprintf(&b, "{\"tag\": \"tg%d\", \"call\": \"target.TargetService.Hello\", \"metadata\": {\"marker\": \"m%d\"}, \"payload\": {\"name\": \"n%d\"}}\n", i, i, i)
			out.TagOf = append(out.TagOf, fmt.Sprintf("tg%d", i))
		}
		files["/ammo/grpc.json"] = []byte(b.String())
		ammo = map[string]interface{}{"type": "grpc/json", "file": "/ammo/grpc.json", "passes": p.Passes}
		gun = map[string]interface{}{"type": "grpc", "target": target, "timeout": p.Timeout.String()}
	}
	if p.Shared && !p.Scenario {
		gun["shared-client"] = map[string]interface{}{"enabled": true, "client-number": 1}
	}
	for i := 0; i < p.Entries; i++ {
		exp := grpcDocMapping[p.Codes[i]]
		if p.Slow[i] > p.Timeout {
			exp = 504 // the client's deadline expires first
		}
		out.Expect = append(out.Expect, exp)
		out.MayFail = append(out.MayFail, p.Reset[i])
	}
	out.Fired = p.Entries * p.Passes
	out.Stop, out.StopCertain = p.Entries-1, true
	for i := 0; i < p.Entries; i++ {
		if p.Reset[i] {
			out.StopCertain = false
		}
		if p.RefuseFrom > 0 {
			// which instance shoots which entry is a scheduling matter: any call may find its client without a connection
			out.StopCertain = false
			out.MayFail[i] = true
		}
	}
	if p.Scenario {
		for i := 0; i < p.Entries; i++ {
			ok := out.Expect[i] == 200
			fails := false
			switch p.Assert[i] {
			case 1, 2, 3:
				fails = !ok // no answer message / another status
			case 4:
				fails = true
			}
			if fails {
				out.Stop = i
				break
			}
		}
		out.Fired = (out.Stop + 1) * p.Passes
	}
	var tgt *grpcTarget
	out.Res = runHTTPPool(r, httpPoolSpec{Ammo: ammo, Gun: gun, Instances: p.Inst, Tokens: out.Fired + 2, Files: files, Horizon: time.Hour},
		func(nw *simnet.Net) {
			nw.Latency = 500 * time.Microsecond
			if p.RefuseFrom > 0 {
				nw.Plan = func(idx int, addr string) simnet.ConnPlan {
					cp := simnet.NoPlan()
					cp.Refuse = idx >= 1000+p.RefuseFrom*8
					return cp
				}
			}
		},
		func(nw *simnet.Net) {
			tgt = startGRPCTarget(nw, target, func(n int, c *grpcCall) grpcAnswer {
				i := -1
				fmt.Sscanf(strings.Join(c.MD["marker"], ""), "m%d", &i)
				if i < 0 || i >= p.Entries {
					return grpcAnswer{}
				}
				if p.Reset[i] {
					// the connection this call arrived on is reset while the call is in flight
					for _, cn := range nw.Conns() {
						if cn.BytesC2S() > 0 && cn.Index >= 1000 {
							cn.Reset()
						}
					}
					return grpcAnswer{Code: p.Codes[i], Delay: 50 * time.Millisecond}
				}
				return grpcAnswer{Code: p.Codes[i], Delay: p.Slow[i]}
			})
		})
	if tgt != nil {
		out.Calls = tgt.Calls()
	}
	if p.RefuseFrom > 0 {
		r.Fault("grpc:later-clients-refused", out.Res.NetFired["connect-refused"] > 0)
	}
	for i := range p.Codes {
		r.Note("grpc-status:" + p.Codes[i].String())
		if p.Slow[i] > p.Timeout {
			r.Fault("grpc:handler-slower-than-timeout", len(out.Calls) > 0)
		}
		if p.Reset[i] {
			r.Fault("grpc:connection-reset-in-flight", len(out.Calls) > 0)
		}
	}
	return out
}

func c10GRPC(r *R) {
	p := genGRPCPlan(r, r.F.Draw(3) == 0)
	r.Sample(map[string]any{"mode": "grpc", "scenario": p.Scenario, "entries": p.Entries, "passes": p.Passes, "instances": p.Inst, "codes": fmt.Sprint(p.Codes), "slow": fmt.Sprint(p.Slow), "reset": fmt.Sprint(p.Reset), "timeout": p.Timeout.String(), "assertions": fmt.Sprint(p.Assert), "refuse_clients_from": p.RefuseFrom, "untagged_entry": p.Untagged})
	r.NonTrivial()
	out := runGRPCPlan(r, p)
	if c20Infra(r, out.Res, "grpc") {
		return
	}
	byTag := map[string][]recSample{}
	for _, s := range out.Res.Samples {
		t := s.Tags
		if t == "__EMPTY__" && p.Untagged >= 0 {
			t = ""
		}
		byTag[t] = append(byTag[t], s)
	}
	known := map[string]bool{}
	for i, t := range out.TagOf {
		known[t] = true
		ss := byTag[t]
		wantN := p.Passes
		if i > out.Stop {
			wantN = 0 // an assertion of an earlier call fails: the invocation ends there
		}
		if !out.StopCertain && p.Scenario {
			// a reset connection makes the statuses, hence the assertions, of this run uncertain: bounds only
			if len(ss) > p.Passes {
				r.Fail("grpc/sample-count", "entry %d (tag %s) produced %d samples in %d passes", i, t, len(ss), p.Passes)
			}
		} else if len(ss) != wantN {
			r.Fail("grpc/sample-count", "entry %d (tag %s, server status %s) produced %d samples in %d passes, want %d (assertions %v: the invocation ends after call %d)", i, t, p.Codes[i], len(ss), p.Passes, wantN, p.Assert, out.Stop)
			continue
		}
		for _, s := range ss {
			if s.Proto == out.Expect[i] {
				continue
			}
			if out.MayFail[i] && (s.Proto == 503 || s.Proto == 500 || s.Proto == 499 || s.Proto == 504) {
				continue // the connection was reset under the call: a transport-level status, whichever grpc-go reports
			}
			anyReset := false
			for _, rs := range p.Reset {
				anyReset = anyReset || rs
			}
			if anyReset && (s.Proto == 503 || s.Proto == 504) {
				continue // another entry's reset hit the shared connection while this call was in flight or reconnecting
			}
			r.Fail("grpc/status-mapping/"+p.Codes[i].String(), "the server answered entry %d with status %s; the documented mapping gives %d, the sample has proto code %d (handler delay %v, timeout %v)", i, p.Codes[i], out.Expect[i], s.Proto, p.Slow[i], p.Timeout)
		}
	}
	for t, ss := range byTag {
		if !known[t] {
			r.Fail("grpc/tag", "%d samples carry tag %q; the entries produce %v", len(ss), t, out.TagOf)
		}
	}
}

// ---- http/scenario clause: one sample per executed step, tagged <scenario>.<step>; the failing step carries the failure ----

// c10Scenario runs the scenario workload of C15 (generated descriptions, scripted target with failing answers) and
// judges it with the per-step sample oracle only: the other clauses of that workload belong to C15.
func c10Scenario(r *R) {
	child := &R{Prop: "C15", Tier: r.Tier, Seed: r.Seed, Tape: r.Tape, W: r.W, F: r.F, T: r.T, notes: r.notes, faults: r.faults, TraceFull: r.TraceFull}
	registry["C15"].Run(child)
	r.sims = append(r.sims, child.sims...)
	r.nontrivial = child.nontrivial
	r.Sample(map[string]any{"mode": "scenario", "workload_of": "C15", "workload": child.sample})
	r.Note("mode:scenario")
	for _, v := range child.Viol {
		sig := strings.TrimPrefix(v.Sig, "C15/")
		if strings.HasPrefix(sig, "samples") || strings.HasPrefix(sig, "CRASH") || strings.HasPrefix(sig, "run-never-ends") {
			r.Fail("scenario/"+sig, "%s", v.Detail)
		}
	}
}
