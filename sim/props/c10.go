package props

import (
	"fmt"
	"strings"

	"verifsim/simrt"
)

// ---- C10: sample result coding (HTTP guns; the gRPC and scenario clauses are added with their harnesses) ----

func init() {
	Register(&Prop{
		ID:    "C10",
		Run:   runC10,
		Level: "exploration",
		Rule: "a run = 1-8 ammo entries (uri or http/json; unique tags or none; drawn paths) x 1-2 passes fired by 1-6 instances of the real http or connect gun through the real engine at a byte-level scripted peer on the simulated network; per entry the tape draws the peer's behaviour: any status 200-599 and 999 with bodies of several sizes, " +
			"or (fault batch) close / reset before, inside the headers or inside the body, garbage, bad chunking, bad version, negative Content-Length, no response until the client's timeout, 100-continue, HTTP/1.0 close-delimited bodies, huge bodies and headers, plus refused and timed-out connects; auto-tag settings are drawn; " +
			"oracle over the recording aggregator: one sample per fired request, proto code = status the peer sent (0 without a response), net code 0 iff the exchange completed, 110 for timeouts, tag per the documented rule, ids unique; non-trivial = at least two instances shot concurrently or a fault fired; distinct = distinct schedule-trace hash",
		Components: map[string]string{
			"components/guns/http (BaseGun, http and connect guns)": "real", "components/providers/http": "real", "core/aggregator/netsample (sample, errno extraction)": "real", "core/engine": "real",
			"net/http client transport": "real (stdlib, un-yielded)", "target": "byte-level scripted peer in the bubble", "network": "simulated (simnet: latency, segmentation, refused / delayed connects, resets)", "aggregator": "recording stub", "clock": "simulated",
		},
	})
}

func runC10(r *R) {
	faults := r.F.Biased(2, 1, 2) == 1
	if r.Mode == "faults" {
		faults = true
	} else if r.Mode == "nofaults" {
		faults = false
	}
	sp := genHTTPFaultSpec(r, faults)
	r.Sample(sp.describe())
	out := runHTTPFaults(r, sp)
	res := out.Res
	if sp.Inst >= 2 || faults {
		r.NonTrivial()
	}
	switch res.Sim.Class {
	case simrt.Crash:
		r.Fail("CRASH/"+frameSig(res.Sim.Stack), "%s\n%s", res.Sim.Detail, res.Sim.Stack)
		return
	case simrt.Hang, simrt.Livelock, simrt.Spin:
		r.Fail("run-never-ends", "%s (run returned=%v, %d samples)", res.Sim.Detail, res.RunDone, len(res.Samples))
		return
	}
	if res.DecodeErr != nil {
		r.Fail("config-rejected", "the pool configuration was rejected: %v", res.DecodeErr)
		return
	}
	if res.RunErr != nil {
		// C19's subject; here only the samples that were produced are judged
		r.Note("run-error")
	}
	samples := res.Samples
	if res.RunErr == nil && len(samples) != out.Fired {
		cls := "too-few"
		if len(samples) > out.Fired {
			cls = "too-many"
		}
		r.Fail("sample-count/"+cls, "%d requests were fired (%d entries x %d passes), %d samples were reported", out.Fired, sp.Entries, sp.Passes, len(samples))
	}
	// ids unique
	ids := map[uint64]int{}
	for _, s := range samples {
		ids[s.ID]++
	}
	for id, c := range ids {
		if c > 1 {
			r.Fail("duplicate-sample-id", "sample id %d was attached to %d samples of one run (%d instances)", id, c, sp.Inst)
			break
		}
	}
	// attribute samples to entries by tag
	byTag := map[string][]recSample{}
	for _, s := range samples {
		byTag[s.Tags] = append(byTag[s.Tags], s)
	}
	expTags := map[string][]int{}
	for i, t := range out.Expect {
		expTags[t] = append(expTags[t], i)
	}
	for t, ss := range byTag {
		if _, ok := expTags[t]; !ok {
			r.Fail("tag/unexpected", "a sample carries tag %q; the entries of this run must produce the tags %v (auto-tag enabled=%v uri-elements=%d no-tag-only=%v; ammo tags %q, paths %q); %d such samples", t, out.Expect, sp.AutoTag, sp.URIElems, sp.NoTagOnly, sp.Tags, sp.Paths, len(ss))
			return
		}
	}
	for t, ents := range expTags {
		want := len(ents) * sp.Passes
		if got := len(byTag[t]); got != want && res.RunErr == nil {
			r.Fail("tag/count", "%d samples carry tag %q, want %d (entries %v x %d passes)", got, t, want, ents, sp.Passes)
		}
	}
	// codes: per tag group the multiset of (proto, net-class) must match the behaviours of its entries
	for t, ents := range expTags {
		type code struct {
			proto int
			netOK bool
			tmo   bool
		}
		var allowed []map[string]bool // per entry: set of acceptable outcomes
		for _, i := range ents {
			b := sp.Behaviours[i]
			acc := map[string]bool{}
			key := func(proto int, netOK bool, timeout bool) string { return fmt.Sprintf("%d/%v/%v", proto, netOK, timeout) }
			switch {
			case b.GotResponse && b.BodyOK:
				acc[key(b.Status, true, false)] = true
			case b.GotResponse && !b.BodyOK:
				acc[key(b.Status, false, false)] = true
			case b.Timeout:
				acc[key(0, false, true)] = true
			default:
				acc[key(0, false, false)] = true
			}
			lostOnDeadConn := false
			if sp.KeepAlive {
				for _, ob := range sp.Behaviours {
					if ob.closesConn() {
						lostOnDeadConn = true
					}
				}
			}
			if lostOnDeadConn {
				// a request written to a kept-alive connection the peer has just closed fails without a response
				acc[key(0, false, false)] = true
			}
			if sp.ConnFaults != "" {
				// the request may never have reached the peer
				acc[key(0, false, false)] = true
				acc[key(0, false, true)] = true
			}
			allowed = append(allowed, acc)
			_ = code{}
		}
		for _, s := range byTag[t] {
			k := fmt.Sprintf("%d/%v/%v", s.Proto, s.Net == 0, s.Net == 110)
			ok := false
			for _, acc := range allowed {
				if acc[k] {
					ok = true
				}
			}
			if !ok {
				var bs []string
				for _, i := range ents {
					b := sp.Behaviours[i]
					bs = append(bs, fmt.Sprintf("entry %d: %s status %d", i, b.Kind, b.Status))
				}
				cls := "proto-code"
				i0 := sp.Behaviours[ents[0]]
				switch {
				case len(ents) == 1 && s.Proto == i0.Status && i0.GotResponse && s.Net == 0 && !i0.BodyOK:
					cls = "net-code/zero-for-failed-exchange/" + i0.Kind
				case len(ents) == 1 && s.Proto == i0.Status && i0.GotResponse && s.Net != 0 && i0.BodyOK:
					cls = "net-code/nonzero-for-complete-exchange/" + i0.Kind
				case len(ents) == 1 && !i0.GotResponse && s.Net == 0:
					cls = "net-code/zero-without-response/" + i0.Kind
				case len(ents) == 1 && i0.Timeout && s.Net != 110:
					cls = "net-code/timeout-not-110"
				case len(ents) == 1:
					cls = "proto-code/" + i0.Kind
				}
				r.Fail(cls, "a sample tagged %q has proto code %d, net code %d, error %q; the peer's behaviour for that tag: %s (connection faults: %q)", t, s.Proto, s.Net, clip(s.Err), strings.Join(bs, "; "), sp.ConnFaults)
				break
			}
		}
	}
}
