package props

import (
	"strings"
)

// ---- C11: instance isolation and data-race freedom ----
//
// The worker binary of this property is built with -race. The simulator's own synchronisation is hidden from
// the detector (simrt runs it under runtime.RaceDisable), so the detector sees exactly pandora's own
// happens-before relation on a schedule the tape chose. Race reports and runtime fatal errors are collected
// from the worker's stderr by the driver and attributed to the seed that was running.

func init() {
	Register(&Prop{
		ID:    "C11",
		Run:   runC11,
		Level: "exploration",
		Rule: "a run = one pool kind drawn from the workloads of the other checks, always with the race detector compiled in: http/scenario pools with shared steps, templates, [next] iterators and postprocessors (C15, C19 scenario mode), grpc and grpc/scenario pools with shared method table and metadata maps (C20), http and connect guns with per-instance or shared clients (C09, C10), " +
			"all providers with several consumers (C08), the engine with stub guns that monitor gun ownership (C03), the phout / jsonlines aggregators with concurrent reporters (C06), several pools of scripted and real components ending, failing and being cancelled (C05), schedules shared by concurrent callers (C02), startup profiles and late instances (C12, C04); oracle: (1) any 'WARNING: DATA RACE' report or runtime fatal error with a pandora frame in the worker's stderr, (2) gun-ownership monitors (one gun per instance, no overlapping Shoot), " +
			"(3) the cross-instance isolation oracles of the sub-workload (another instance's token, metadata, data-source row or sample id); non-trivial = at least two instances ran concurrently; distinct = distinct schedule-trace hash",
		Components: map[string]string{
			"all pandora components of the drawn pool kind": "real, compiled with -race", "Go race detector": "real (happens-before analysis on the seeded schedule)", "targets": "in-bubble servers", "network, disk, clock": "simulated",
			"gun (engine accounting sub-workload)": "stub with ownership monitors",
		},
	})
}

var c11Kinds = []string{"C15", "C15", "C20", "C20", "C19", "C09", "C10", "C08", "C03", "C06", "C14", "C05", "C02", "C12", "C04"}

// signatures of the sub-workloads that are statements about isolation between instances
var c11Relevant = []string{"variable-flow", "scenario/metadata", "metadata-leak", "metadata", "next-rows", "next-elements", "scenario/next-rows", "duplicate-sample-id", "duplicate-ammo-id", "CRASH", "panic-in-call", "gun/", "samples", "scenario/message", "message"}

func runC11(r *R) {
	kind := c11Kinds[r.W.Draw(len(c11Kinds))]
	if r.Mode != "" {
		kind = r.Mode
	}
	p := registry[kind]
	child := &R{Prop: kind, Tier: r.Tier, Seed: r.Seed, Tape: r.Tape, W: r.W, F: r.F, T: r.T, notes: r.notes, faults: r.faults, TraceFull: r.TraceFull}
	if kind == "C19" {
		child.Mode = "scenario"
	}
	p.Run(child)
	r.sims = append(r.sims, child.sims...)
	r.nontrivial = child.nontrivial
	r.Sample(map[string]any{"workload_of": kind, "workload": child.sample})
	r.Note("workload:" + kind)
	for _, v := range child.Viol {
		sig := strings.TrimPrefix(v.Sig, kind+"/")
		for _, rel := range c11Relevant {
			if strings.HasPrefix(sig, rel) {
				r.Fail("isolation/"+kind+"/"+sig, "%s", v.Detail)
				break
			}
		}
	}
}
