package props

import (
	"sort"
	"time"
	"verifsim/stubs"
)

// ---- C12: instance startup profile ----

func init() {
	Register(&Prop{
		ID:    "C12",
		Run:   runC12,
		Level: "exploration",
		Rule: "a run = one pool with a startup profile (once/const/instance_step/composite, <=16 instances), a finite RPS profile (shared or per instance) ending before or after the startup profile, an ammo bound before/after, optionally a caller cancel at a drawn instant or a gun factory failure for the k-th instance, under one seeded interleaving; " +
			"non-trivial = the startup profile extends over simulated time (duration > 0) and at least two instances were started; distinct = distinct schedule-trace hash",
		Components: map[string]string{
			"core/engine (startInstances, awaitRun, buildNewInstanceSchedule)": "real", "core/coreutil.Waiter": "real",
			"core/schedule (instance_step, composite, const, once)": "real, wrapped by a recorder", "core/provider.num": "real", "gun": "stub", "clock": "simulated",
		},
	})
}

func runC12(r *R) {
	w := r.W
	sp := engSpec{GunErrAt: -1}
	sp.Startup = genStartup(w, 16)
	sp.RPS = genRPS(w, 200)
	sp.PerInstance = w.Bool()
	switch w.Draw(3) {
	case 0:
		sp.Ammo = 0
	case 1:
		sp.Ammo = 1 + w.Draw(30)
	default:
		sp.Ammo = 50 + w.Draw(400)
	}
	sp.Discard = w.Bool()
	sp.Shots = genShots(w, 100*time.Millisecond)
	sp.Stalls = w.Draw(6) == 0
	if w.Draw(5) == 0 {
		sp.CancelAt = time.Duration(1+w.Draw(int(sp.Startup.Dur/time.Millisecond)+2000)) * time.Millisecond
	}
	if w.Draw(6) == 0 {
		sp.GunErrAt = 1 + w.Draw(sp.Startup.Tokens+1) // gun #0 is the warm-up gun
	}
	r.Sample(sp.describe())
	// one run in four: another pool of the same engine runs beside the observed one (ids are numbered per pool)
	sp.ExtraPool = w.Draw(4) == 0
	// one run in five: a slow warm-up (the startup profile begins when instances can be started, not before)
	if w.Draw(5) == 0 {
		sp.WarmUp = []time.Duration{300 * time.Millisecond, 2 * time.Second, 7 * time.Second}[w.Draw(3)]
		r.Note("slow-warm-up")
	}
	if sp.ExtraPool {
		r.Note("second-pool-in-the-engine")
	}
	res := runEngine(r, sp, 48*time.Hour)
	if r.Failed() || res.Log == nil {
		return
	}
	checkStartup(r, sp, res)
}

func checkStartup(r *R, sp engSpec, res *engResult) {
	var (
		startupStart time.Duration = -1
		binds        []time.Duration
		ids          []int
		ammoOutAt    time.Duration = -1
		rpsEndAt     time.Duration = -1
		gunErrAt     time.Duration = -1
		cancelAt     time.Duration = -1
		runRetAt     time.Duration = -1
		failed       int
	)
	handed := 0 // tokens of the RPS profile handed out so far (all instances)
	var okNexts []stubs.Ev
	for _, e := range res.Evs {
		if e.Kind == "next" && e.OK && e.Src == "rps" {
			okNexts = append(okNexts, e)
		}
	}
	lastOf := map[int]string{} // instance task -> kind of its last rps/provider event
	instTask := map[int]int{}  // task -> instance id
	for _, e := range res.Evs {
		switch e.Kind {
		case "next", "left":
			if e.Src == "startup" {
				// the schedule takes its start from the clock inside its first Next: derive it from
				// the first token rather than from the instant the call was logged
				if startupStart < 0 && e.Kind == "next" && e.OK && len(sp.Startup.Offs) > 0 {
					startupStart = e.Tok - sp.Startup.Offs[0]
				}
				continue
			}
			if e.Kind == "next" && e.OK {
				handed++
				if !sp.PerInstance && handed == sp.RPS.Tokens && rpsEndAt < 0 {
					rpsEndAt = e.T // the last token of the shared profile has been handed out
				}
			}
			if e.Kind == "next" && !e.OK || e.Kind == "left" && e.N == 0 {
				// the schedule says it is finished: believed only if every token of the profile (known from the
				// reference) was handed out, or was being handed out (its Next call had started), when this call
				// returned - a schedule that reports its end early takes instances and, through the finish callback,
				// the rest of the startup profile with it
				n := 0
				for _, o := range okNexts {
					if o.CallSeq < e.Seq && (!sp.PerInstance || o.Task == e.Task) {
						n++
					}
				}
				all := n >= sp.RPS.Tokens
				if all {
					if rpsEndAt < 0 {
						rpsEndAt = e.T
					}
					lastOf[e.Task] = "rps-exhausted"
				} else {
					lastOf[e.Task] = "rps-reported-finished-with-tokens-left"
				}
			} else {
				lastOf[e.Task] = e.Kind
			}
		case "gun-bind":
			if e.Err == "" {
				binds = append(binds, e.T)
				ids = append(ids, e.Inst)
			} else {
				failed++
				if gunErrAt < 0 {
					gunErrAt = e.T
				}
			}
		case "gun-new":
			if e.Err != "" {
				failed++
				if gunErrAt < 0 {
					gunErrAt = e.T
				}
			}
		case "acquire-end":
			if ammoOutAt < 0 {
				ammoOutAt = e.T
			}
			lastOf[e.Task] = "ammo-out"
		case "acquire":
			lastOf[e.Task] = "acquire"
		case "shoot-in":
			instTask[e.Task] = e.Inst
		case "cancel":
			cancelAt = e.T
		case "run-returned":
			runRetAt = e.T
		}
	}
	started := len(binds)
	if sp.Startup.Dur > 0 && started >= 2 {
		r.NonTrivial()
	}
	// never more instances than the profile has released by that moment
	sort.Slice(binds, func(i, j int) bool { return binds[i] < binds[j] })
	for k, t := range binds {
		if k >= len(sp.Startup.Offs) {
			r.Fail("too-many-instances", "%d instances were started, startup profile %s has %d tokens", started, sp.Startup.Desc, sp.Startup.Tokens)
			break
		}
		if t < startupStart+sp.Startup.Offs[k]-time.Microsecond {
			r.Fail("instance-started-early", "instance #%d (in creation order) was created at %v, the startup profile %s (started at %v) releases it at %v",
				k, t, sp.Startup.Desc, startupStart, startupStart+sp.Startup.Offs[k])
			break
		}
	}
	// an instance, once started, keeps firing - with the gun it was given: a gun that has been closed is finished
	for _, e := range res.Evs {
		if e.Kind == "shoot-in" && e.AfterClose {
			r.Fail("gun-used-after-close", "instance %d was asked to shoot at %v with a gun the engine had already closed (startup %s, rps %s)", e.Inst, e.T, sp.Startup.Desc, sp.RPS.Desc)
			break
		}
	}
	// distinct ids numbered consecutively from 0
	seen := map[int]bool{}
	for _, id := range ids {
		if seen[id] {
			r.Fail("duplicate-instance-id", "instance id %d was given to two instances (ids %v)", id, ids)
		}
		seen[id] = true
	}
	// (an id whose instance could not be created is used up: allow as many gaps as creations failed)
	for _, id := range ids {
		if id < 0 || id >= started+failed {
			r.Fail("instance-ids-not-consecutive", "%d instances started (%d creations failed) with ids %v: id %d is out of the consecutive range", started, failed, ids, id)
			break
		}
	}
	// (the counters are the engine's, not the pool's: with a second pool they count its instance too)
	if !sp.ExtraPool && int(res.Metrics.InstanceStart.Get()) != started {
		r.Fail("metrics/instance-start", "Metrics.InstanceStart=%d, %d instances were created and bound", res.Metrics.InstanceStart.Get(), started)
	}
	if res.RunErr != nil || cancelAt >= 0 || gunErrAt >= 0 {
		r.Note("cut-short:cancel-or-failure")
		return
	}
	// the context a gun was bound with lives as long as its instance fires: a gun that honours it (the connect gun
	// dials with it, custom guns pass it to their requests) is otherwise taken out of the run while its instance goes on
	for _, e := range res.Evs {
		if (e.Kind == "shoot-in" || e.Kind == "shoot-out") && e.CtxDone {
			r.Fail("gun-context-done-while-firing", "the context instance %d's gun was bound with was already done at its %s at %v, although the run was neither cancelled nor failed (startup %s, rps %s, first out-of-ammo at %v, rps end at %v)",
				e.Inst, e.Kind, e.T, sp.Startup.Desc, sp.RPS.Desc, ammoOutAt, rpsEndAt)
			break
		}
	}
	// no reduction: once started an instance keeps firing until its RPS profile or the ammo is exhausted
	for task, inst := range instTask {
		if k := lastOf[task]; k != "rps-exhausted" && k != "ammo-out" {
			r.Fail("instance-stopped-early", "instance %d stopped after a %q event although neither its RPS profile nor the ammo was exhausted and the run was not cancelled", inst, k)
			break
		}
	}
	// all tokens of the profile result in instances unless start was cut short
	if started >= sp.Startup.MinTokens {
		r.Note("full-startup")
		return
	}
	// the first instance that is missing was due at:
	due := startupStart + sp.Startup.Offs[started]
	cut := ""
	legit := func(at time.Duration) bool {
		if at < 0 {
			return false
		}
		// the start loop takes no simulated time unless the scheduler stalls it: without stalls
		// the cause must have occurred by the instant the missing instance was due
		return sp.Stalls || at <= due
	}
	if legit(ammoOutAt) {
		cut = "ammo-out"
	}
	if !sp.PerInstance && legit(rpsEndAt) {
		cut = "shared-rps-finished"
	}
	_ = runRetAt
	if cut != "" {
		r.Note("cut-short:" + cut)
		return
	}
	r.Note("full-startup-expected")
	if started != sp.Startup.Tokens {
		mode := "shared"
		if sp.PerInstance {
			mode = "per-instance"
		}
		r.Fail("startup-cut-short/"+mode, "%d of the %d instances of startup profile %s were started although ammo did not run out (first out-of-ammo at %v), the shared RPS profile did not finish (%v), no instance failed to be created and the run was not cancelled (the first missing instance was due at %v; %s RPS profile %s)",
			started, sp.Startup.Tokens, sp.Startup.Desc, ammoOutAt, rpsEndAt, due, mode, sp.RPS.Desc)
	}
}
