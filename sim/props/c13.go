package props

import (
	"fmt"
	"os"
	"path/filepath"
	"runtime"
	"strings"
	"time"

	"github.com/yandex/pandora/core/config"

	"verifsim/simfs"
	"verifsim/simnet"
	"verifsim/simrt"
)

// ---- C13: malformed input is rejected, never crashes or hangs ----

func init() {
	Register(&Prop{
		ID:    "C13",
		Run:   runC13,
		Level: "exploration",
		Rule: "a run = one hostile input: (ammo) a well-formed prefix of 0-4 generated entries in uri / uripost / raw / http/json / grpc/json followed by a malformed tail from a per-format list (non-numeric, negative, huge and truncated size fields, broken header lines, invalid JSON, bad methods and URLs, lines longer than the maximal ammo size) or a byte-level mutation (truncate, flip, splice, delete) of a well-formed file, " +
			"read through the real provider (preload on/off, Run task + consumer tasks, chunked reads); (scenario) a valid http/grpc scenario description in YAML or HCL with one structural defect (unknown request, leading sleep(), malformed name(count, sleep), empty or missing data sources, unknown plugin types, truncation at a drawn byte); " +
			"(config) pool configuration values with hostile placeholders (${}, ${property:file} without a key or naming a properties file with lines that have no '=', unknown tag types, unterminated) decoded through core/config; verdicts: panic in any task = CRASH, bubble deadlock = HANG, tick budget = SPIN, plus 'error reported' for the definitely malformed inputs and 'well-formed prefix delivered unchanged'; " +
			"non-trivial = the malformed part was reached after at least one well-formed entry, or a scenario/config defect was exercised; distinct = distinct (mode, format, defect) x schedule-trace hash",
		Components: map[string]string{
			"components/providers/http (provider, decoders)": "real", "components/providers/grpc/grpcjson": "real", "components/providers/scenario (config, http, grpc, vs)": "real",
			"lib/confutil, core/config": "real", "lib/mp, lib/str": "real (reached through the scenario decoders)", "disk": "simulated (simfs)", "consumers": "harness tasks", "clock": "simulated",
		},
	})
}

type badTail struct {
	Name string
	Text string
	// MustErr: the tail is malformed under every reading of the format: an error has to be reported
	MustErr bool
}

var c13Tails = map[string][]badTail{
	"uri": {
		{"header-unterminated", "[Broken header\n/after\n", true},
		{"header-no-colon", "[NoColon]\n/after\n", true},
		{"header-empty-key", "[: value]\n/after\n", true},
		{"header-only-bracket", "[\n", true},
		{"url-bad-escape", "/bad%zzescape tag\n", true},
		{"url-control-char", "/a\x7fb\n", true},
		{"nul-bytes", "\x00\x00\x00\n", false},
	},
	"uripost": {
		{"size-not-a-number", "abc /uri tag\nabc\n", true},
		{"size-only", "5\nhello\n", true},
		{"size-negative", "-1 /uri tag\n", true},
		{"size-negative-7", "-7 /uri\nabcdefg\n", true},
		{"size-maxint", "9223372036854775807 /uri tag\nabc\n", true},
		{"size-2^62", "4611686018427387904 /uri\nabc\n", true},
		{"size-2GB", "2000000000 /uri\nabc\n", true},
		{"body-truncated", "10 /uri tag\nshort", true},
		{"body-missing", "7 /uri tag\n", true},
		{"body-missing-no-newline", "7 /uri tag", true},
		{"body-one-byte-short", "6 /uri tag\nshort", true},
		{"header-unterminated", "[Broken\n3 /uri\nabc\n", true},
		{"url-bad-escape", "0 /bad%zz\n", true},
	},
	"raw": {
		{"size-not-a-number", "abc tag\nGET / HTTP/1.1\r\nHost: x\r\n\r\n", true},
		{"size-negative", "-5 tag\nGET / HTTP/1.1\r\nHost: x\r\n\r\n", true},
		{"size-maxint", "9223372036854775807 tag\nGET / HTTP/1.1\r\n\r\n", true},
		{"size-2^62", "4611686018427387904 t\nGET / HTTP/1.1\r\n\r\n", true},
		{"size-2GB", "2000000000 t\nGET / HTTP/1.1\r\n\r\n", true},
		{"request-truncated", "99999 tag\nGET / HTTP/1.1\r\nHost: x\r\n\r\n", true},
		{"request-missing", "42 tag\n", true},
		{"request-missing-no-newline", "42 tag", true},
		{"size-float", "12.5 tag\nGET / HTTP/1.1\r\n\r\n", true},
	},
	"json": {
		{"unterminated-object", "{\"method\": \"GET\", \"uri\": \"/x\"\n", true},
		{"wrong-type", "{\"method\": 5, \"uri\": \"/x\"}\n", true},
		{"bad-method", "{\"method\": \"GE T\", \"uri\": \"/x\"}\n", true},
		{"garbage", "this is not json\n", true},
		{"unterminated-string", "{\"method\": \"GET\", \"uri\": \"/x\n", true},
		{"number", "12345\n", true},
		{"nested-array", "[[[[\n", true},
		{"bad-url", "{\"method\": \"GET\", \"host\": \"ex ample\", \"uri\": \"/%zz\"}\n", true},
	},
	"generic-json": {
		{"unterminated-object", "{\"n\": 7, \"s\": \"x\"\n", true},
		{"unterminated-string", "{\"n\": 7, \"s\": \"x\n", true},
		{"garbage", "this is not json\n", true},
		{"other-types", "{\"n\": \"seven\", \"s\": 5}\n", false}, // (well-formed for an ammo type that is a map)
		{"truncated-after-colon", "{\"n\": 7, \"s\":", true},
		{"stray-bracket", "]\n", true},
	},
	"grpc/json": {
		{"unterminated-object", "{\"tag\": \"t\", \"call\": \"a.B.C\"\n", true},
		{"wrong-type", "{\"tag\": 5, \"call\": [], \"payload\": 7}\n", true},
		{"garbage", "not json at all\n", true},
		{"array", "[1, 2, 3]\n", true},
		// (longer than max ammo size, which this tail sets to 256 bytes; the default, 64 KiB, is exceeded by the next one)
		{"oversized-line", "{\"tag\": \"big\", \"call\": \"target.TargetService.Hello\", \"payload\": {\"hello\": \"" + strings.Repeat("w", 400) + "\"}}\n" + grpcLine(9), true},
		{"oversized-line-default-limit", "{\"tag\": \"big\", \"call\": \"target.TargetService.Hello\", \"payload\": {\"hello\": \"" + strings.Repeat("w", 70000) + "\"}}\n" + grpcLine(9), true},
	},
}

func runC13(r *R) {
	mode := r.W.Draw(10)
	switch r.Mode {
	case "ammo":
		mode = 0
	case "scenario":
		mode = 7
	case "config":
		mode = 9
	}
	var before runtime.MemStats
	runtime.ReadMemStats(&before)
	switch {
	case mode < 6:
		c13Ammo(r)
	case mode < 9:
		c13Scenario(r)
	default:
		c13Config(r)
	}
	var after runtime.MemStats
	runtime.ReadMemStats(&after)
	if d := after.TotalAlloc - before.TotalAlloc; d > 256<<20 {
		r.Note("allocated-more-than-256MiB-for-a-small-input")
	}
}

func grpcLine(i int) string {
	return fmt.Sprintf("{\"tag\": \"t%d\", \"call\": \"target.TargetService.Hello\", \"metadata\": {\"k\": \"v%d\"}, \"payload\": {\"hello\": \"w%d\"}}\n", i, i, i)
}

func c13Ammo(r *R) {
	w := r.W
	formats := []string{"uri", "uripost", "raw", "json", "grpc/json", "generic-json"}
	format := formats[w.Draw(len(formats))]
	typ := map[string]string{"uri": "uri", "uripost": "uripost", "raw": "raw", "json": "http/json", "grpc/json": "grpc/json", "generic-json": "json"}[format]
	k := w.Draw(5)
	preload := w.Draw(3) == 0 && format != "grpc/json" && format != "generic-json"
	cons := 1 + w.Draw(2)
	var file []byte
	var pass []gotReq
	l := layout{}
	if format == "grpc/json" {
		var b strings.Builder
		for i := 0; i < k; i++ {
			b.WriteString(grpcLine(i))
			pass = append(pass, gotReq{Tag: fmt.Sprintf("t%d", i)})
		}
		file = []byte(b.String())
	} else if format == "generic-json" {
		var b strings.Builder
		for i := 0; i < k; i++ {
			fmt.Fprintf(&b, "{\"n\": %d, \"s\": \"v%d\"}\n", i, i)
			pass = append(pass, gotReq{Tag: fmt.Sprintf("v%d", i)})
		}
		file = []byte(b.String())
	} else {
		var items []absItem
		for i := 0; i < k; i++ {
			items = append(items, absItem{Req: genReq(w, format, i)})
		}
		if k > 0 {
			file = renderFile(format, items, l)
		}
		pass = expectedHTTP(format, items)
	}
	defect := ""
	mustErr := false
	byteMut := w.Draw(3) == 0
	if byteMut && len(file) > 0 {
		// byte-level mutation of the well-formed file (the alphabet has no digits: size fields never grow)
		alpha := []byte("[]{}\":, \n\r\t-/\\x\x00\xff%")
		nm := 1 + w.Draw(3)
		for i := 0; i < nm; i++ {
			pos := w.Draw(len(file))
			switch w.Draw(4) {
			case 0:
				file = file[:pos]
				defect = "truncate"
			case 1:
				file[pos] = alpha[w.Draw(len(alpha))]
				defect = "flip"
			case 2:
				file = append(file[:pos], append([]byte{alpha[w.Draw(len(alpha))]}, file[pos:]...)...)
				defect = "insert"
			default:
				end := pos + 1 + w.Draw(8)
				if end > len(file) {
					end = len(file)
				}
				file = append(file[:pos], file[end:]...)
				defect = "delete"
			}
			if len(file) == 0 {
				break
			}
		}
		defect = "mutation-" + defect
		k = -1 // the prefix rule does not apply
	} else {
		tails := c13Tails[format]
		bt := tails[w.Draw(len(tails))]
		switch w.Draw(12) {
		case 0:
			bt = badTail{"empty-file", "", false}
			file = nil
			k = 0
		case 1:
			bt = badTail{"whitespace-only", "\n\n  \n", false}
			file = nil
			k = 0
		}
		file = append(file, bt.Text...)
		defect, mustErr = bt.Name, bt.MustErr
	}
	// passes 1-2, or (one run in four) unlimited passes: a provider that then has nothing to deliver - an empty or
	// wholly malformed source - must end with an error or at once, it must not read the source over and over for ever;
	// one that has entries is cancelled by the harness after a few rounds
	passes := 1 + w.Draw(2)
	cancelAfter := 0
	if w.Draw(4) == 0 {
		passes = 0
		cancelAfter = 2*max(k, 1) + 1 + w.Draw(4)
	}
	plan := simfs.NoPlan()
	plan.ReadChunk = []int{0, 0, 1, 5, 4096}[w.Draw(5)]
	conf := map[string]interface{}{"type": typ, "file": "/ammo/ammo.txt", "passes": passes}
	if format == "generic-json" {
		conf = map[string]interface{}{"type": "json", "source": map[string]interface{}{"type": "file", "path": "/ammo/ammo.txt"}, "passes": passes}
	}
	if preload {
		conf["preload"] = true
	}
	if defect == "oversized-line" {
		conf["maxammosize"] = 256
	}
	coe := false
	if format == "grpc/json" && w.Draw(3) == 0 {
		conf["continueonerror"] = true
		coe = true
	}
	// continue-on-error together with a limit: skipped lines or not, no more items than the limit are handed out
	coeLimit := 0
	if coe && w.Draw(2) == 0 {
		coeLimit = 1 + w.Draw((max(k, 1)+2)*max(passes, 1))
		conf["limit"] = coeLimit
	}
	// the http providers have the option too (the unchanged tree does not act on it in the streaming path: a malformed
	// entry then still ends the run with an error, which the statement allows as well)
	httpCoe := false
	if format != "grpc/json" && format != "generic-json" && w.Draw(4) == 0 {
		conf["continueonerror"] = true
		httpCoe = true
		r.Note("ammo/http-continue-on-error")
	}
	// a hostile configuration value next to the hostile file: a negative or absurd maximal ammo size (the option is not
	// validated) must end in an error or be harmless, never in a panic
	if format == "grpc/json" && !coe && defect != "oversized-line" && w.Draw(5) == 0 {
		sz := []int64{-1, -4096, 1 << 62}[w.Draw(3)]
		conf["maxammosize"] = sz
		defect += fmt.Sprintf("+max-ammo-size(%d)", sz)
		mustErr = false
	}
	r.Sample(map[string]any{"mode": "ammo", "format": format, "defect": defect, "prefix_entries": k, "preload": preload, "passes": passes, "cancel_after": cancelAfter, "consumers": cons, "read_chunk": plan.ReadChunk, "continue_on_error": coe, "file": clipB(file)})
	r.Note("ammo/" + format + "/" + defect)
	if k > 0 {
		r.NonTrivial()
	}
	ex := extractHTTP
	if format == "grpc/json" {
		ex = extractGRPC
	} else if format == "generic-json" {
		ex = extractAny
	}
	out := runProvider(r, provRun{Conf: conf, Files: map[string][]byte{"/ammo/ammo.txt": file}, Plans: map[string]simfs.Plan{"/ammo/ammo.txt": plan}, Consumers: cons, Extract: ex, Horizon: 10 * time.Minute, CancelAfter: cancelAfter}, false)
	sig := format + "/" + defect
	if passes == 0 {
		sig += "/unlimited-passes"
		r.Note("ammo/unlimited-passes")
	}
	switch out.Sim.Class {
	case simrt.Crash:
		r.Fail("CRASH/"+sig+"/"+frameSig(out.Sim.Stack), "%s\n%s\nfile: %s", out.Sim.Detail, out.Sim.Stack, clipB(file))
		return
	case simrt.Spin, simrt.Livelock:
		r.Fail("SPIN/"+sig, "%s\n%s\nfile: %s", out.Sim.Detail, out.Sim.Stack, clipB(file))
		return
	case simrt.Hang:
		r.Fail("HANG/"+sig, "%d items delivered, Run returned=%v (%v): %s\nfile: %s", len(out.All), out.RunDone, out.RunErr, out.Sim.Detail, clipB(file))
		return
	}
	failed := out.NewErr != nil || out.RunErr != nil
	if mustErr && !failed && !coe && !httpCoe {
		r.Fail("not-rejected/"+sig, "the malformed input was accepted without an error: %d items delivered, Run returned nil\nfile: %s", len(out.All), clipB(file))
	}
	if k >= 0 && format != "grpc/json" && format != "generic-json" && passes > 0 {
		// well-formed entries before the malformed part: delivered exactly (streaming) or nothing at all (whole-file paths)
		got := out.All
		if len(got) == 0 && failed {
			return
		}
		if cons == 1 {
			for i := 0; i < len(got); i++ {
				if i >= k*passes && mustErr && !httpCoe {
					r.Fail("delivered-malformed/"+sig, "item %d delivered from the malformed part: %s\nfile: %s", i, got[i].key(), clipB(file))
					return
				}
				if k > 0 && i < k && !sameReq(got[i], pass[i]) {
					r.Fail("prefix-altered/"+sig, "entry %d before the malformed part was delivered as\n  %s\nwant\n  %s\nfile: %s", i, got[i].key(), pass[i].key(), clipB(file))
					return
				}
			}
			if mustErr && len(got) < k && !preload && !httpCoe {
				r.Fail("prefix-dropped/"+sig, "only %d of the %d well-formed entries before the malformed part were delivered (Run error: %v)\nfile: %s", len(got), k, out.RunErr, clipB(file))
			}
		}
	}
	if coeLimit > 0 && len(out.All) > coeLimit {
		r.Fail("continue-on-error/limit-exceeded/"+defect, "limit %d with continue-on-error: %d items were handed out (passes %d)\nfile: %s", coeLimit, len(out.All), passes, clipB(file))
	}
	if format == "grpc/json" && coe && coeLimit == 0 && k > 0 && passes > 0 && !failed {
		// continue-on-error: the malformed lines are skipped (handed out marked invalid), the well-formed ones are
		// delivered as written, every pass, whatever object of the provider's pool carries them
		perTag := map[string]int{}
		for _, g := range out.All {
			if strings.Contains(g.Extra, "invalid=false") {
				perTag[g.Tag]++
			}
		}
		for i := 0; i < k; i++ {
			if t := pass[i].Tag; perTag[t] != passes {
				r.Fail("continue-on-error/well-formed-entry-lost/"+defect, "with continue-on-error the well-formed entry %q was delivered valid %d times in %d passes (all deliveries: %d)\nfile: %s", t, perTag[t], passes, len(out.All), clipB(file))
				break
			}
		}
	}
	if format == "grpc/json" && k > 0 && mustErr && !coe && cons == 1 && passes > 0 {
		for i := 0; i < len(out.All) && i < k; i++ {
			if out.All[i].Tag != pass[i].Tag {
				r.Fail("prefix-altered/"+sig, "entry %d before the malformed part has tag %q, want %q", i, out.All[i].Tag, pass[i].Tag)
				return
			}
		}
	}
}

// ---- scenario descriptions ----

const c13CSV = "user_id,name\n1,alice\n2,bob\n"

func c13ScenarioYAML(grpc bool, e map[string]string) string {
	get := func(k, def string) string {
		if v, ok := e[k]; ok {
			return v
		}
		return def
	}
	var b strings.Builder
	b.WriteString("variable_sources:\n")
	b.WriteString("  - name: users\n    type: " + get("vs_type", "file/csv") + "\n    file: " + get("csv_file", "/ammo/users.csv") + "\n    fields: [" + get("csv_fields", "user_id, name") + "]\n    ignore_first_line: " + get("csv_skip_first", "true") + "\n    delimiter: '" + get("csv_delim", ",") + "'\n")
	b.WriteString("  - name: filter_src\n    type: file/json\n    file: " + get("json_file", "/ammo/filter.json") + "\n")
	b.WriteString("  - name: vars\n    type: variables\n    variables:\n      b: s\n")
	if grpc {
		b.WriteString("requests: [ ]\ncalls:\n")
		b.WriteString("  - name: auth_req\n    tag: auth\n    call: target.TargetService.Auth\n    payload: '{\"login\": \"{{.request.auth_req.preprocessor.user.name}}\"}'\n    preprocessors:\n      - type: " + get("pre_type", "prepare") + "\n        mapping:\n          user: " + get("mapping", "source.users[next]") + "\n")
		b.WriteString("  - name: list_req\n    tag: list\n    call: target.TargetService.List\n    payload: '{\"token\": \"x\"}'\n")
	} else {
		b.WriteString("calls: [ ]\nrequests:\n")
		b.WriteString("  - name: auth_req\n    method: POST\n    uri: /auth\n    tag: auth\n    body: '{\"user_id\": {{.request.auth_req.preprocessor.user_id}}}'\n    preprocessor:\n      mapping:\n        user_id: " + get("mapping", "source.users[next].user_id") + "\n")
		b.WriteString("    postprocessors:\n      - type: " + get("post_type", "var/jsonpath") + "\n        mapping:\n          token: $.auth_key\n")
		if xp := get("extra_post", ""); xp != "" {
			// one more postprocessor on the auth step: "<type>|<variable>|<expression>"
			f := strings.SplitN(xp, "|", 3)
			b.WriteString("      - type: " + f[0] + "\n        mapping:\n          " + f[1] + ": '" + f[2] + "'\n")
		}
		b.WriteString("    templater:\n      type: " + get("templater", "text") + "\n")
		b.WriteString("  - name: list_req\n    method: GET\n    uri: /list\n    tag: list\n")
	}
	b.WriteString("scenarios:\n  - name: s1\n    weight: " + get("weight", "2") + "\n    min_waiting_time: " + get("mwt", "10") + "\n    requests:\n")
	for _, rq := range strings.Split(get("requests", "auth_req(1)|sleep(100)|list_req(2)"), "|") {
		b.WriteString("      - " + rq + "\n")
	}
	b.WriteString("  - name: " + get("s2_name", "s2") + "\n    requests:\n      - list_req(1)\n")
	return b.String()
}

func c13ScenarioHCL(e map[string]string) string {
	get := func(k, def string) string {
		if v, ok := e[k]; ok {
			return v
		}
		return def
	}
	var b strings.Builder
	b.WriteString("variable_source \"users\" \"file/csv\" {\n  file = \"" + get("csv_file", "/ammo/users.csv") + "\"\n  fields = [\"" + strings.ReplaceAll(get("csv_fields", "user_id, name"), ", ", "\", \"") + "\"]\n  ignore_first_line = " + get("csv_skip_first", "true") + "\n  delimiter = \"" + get("csv_delim", ",") + "\"\n}\n")
	b.WriteString("request \"auth_req\" {\n  method = \"POST\"\n  uri = \"/auth\"\n  tag = \"auth\"\n  headers = {}\n  body = \"{}\"\n  preprocessor {\n    mapping = {\n      user_id = \"" + get("mapping", "source.users[next].user_id") + "\"\n    }\n  }\n}\n")
	b.WriteString("request \"list_req\" {\n  method = \"GET\"\n  uri = \"/list\"\n  tag = \"list\"\n  headers = {}\n}\n")
	b.WriteString("scenario \"s1\" {\n  weight = " + get("weight", "2") + "\n  min_waiting_time = " + get("mwt", "10") + "\n  requests = [\n")
	for _, rq := range strings.Split(get("requests", "auth_req(1)|sleep(100)|list_req(2)"), "|") {
		b.WriteString("    \"" + rq + "\",\n")
	}
	b.WriteString("  ]\n}\n")
	return b.String()
}

type scDefect struct {
	Name    string
	Edit    map[string]string
	Files   map[string]string // overrides of the data files ("" = remove)
	MustErr bool
}

var c13ScDefects = []scDefect{
	{"none", nil, nil, false},
	{"unknown-request", map[string]string{"requests": "auth_req(1)|nosuch_req(1)"}, nil, true},
	{"leading-sleep", map[string]string{"requests": "sleep(100)|auth_req(1)"}, nil, true},
	{"only-sleep", map[string]string{"requests": "sleep(5)"}, nil, true},
	{"unclosed-paren", map[string]string{"requests": "auth_req(1"}, nil, true},
	{"close-without-open", map[string]string{"requests": "auth_req)"}, nil, true},
	{"count-not-a-number", map[string]string{"requests": "auth_req(x)"}, nil, true},
	{"sleep-not-a-number", map[string]string{"requests": "auth_req(1, y)"}, nil, true},
	{"count-negative", map[string]string{"requests": "auth_req(-3)|list_req(1)"}, nil, false},
	{"count-zero", map[string]string{"requests": "auth_req(0)"}, nil, false},
	{"zero-count-then-sleep", map[string]string{"requests": "auth_req(0)|sleep(100)|list_req(1)"}, nil, true},
	{"negative-count-then-sleep", map[string]string{"requests": "auth_req(-2)|sleep(5)|list_req(1)"}, nil, true},
	{"sleep-between-zero-counts", map[string]string{"requests": "list_req(1)|auth_req(0)|sleep(7)|auth_req(0, 5)"}, nil, false},
	{"empty-args", map[string]string{"requests": "auth_req()|list_req(,)"}, nil, false},
	{"empty-name", map[string]string{"requests": "(1)"}, nil, true},
	{"text-after-paren", map[string]string{"requests": "auth_req(1) extra"}, nil, true},
	{"sleep-negative", map[string]string{"requests": "auth_req(1)|sleep(-100)"}, nil, false},
	{"weight-negative", map[string]string{"weight": "-4"}, nil, false},
	{"weight-zero", map[string]string{"weight": "0"}, nil, false},
	{"mwt-negative", map[string]string{"mwt": "-10"}, nil, false},
	{"csv-empty", nil, map[string]string{"/ammo/users.csv": ""}, false},
	{"csv-header-only", nil, map[string]string{"/ammo/users.csv": "user_id,name\n"}, false},
	{"csv-missing", nil, map[string]string{"/ammo/users.csv": "-"}, true},
	{"csv-ragged", nil, map[string]string{"/ammo/users.csv": "user_id,name\n1\n2,bob,extra\n"}, false},
	{"csv-more-fields-than-columns", map[string]string{"csv_fields": "user_id, name, email, phone"}, nil, false},
	{"csv-fewer-fields-than-columns", map[string]string{"csv_fields": "user_id"}, nil, false},
	{"csv-no-header-skip", map[string]string{"csv_skip_first": "false"}, nil, false},
	{"csv-other-delimiter", map[string]string{"csv_delim": ";"}, nil, false},
	{"csv-quote-unterminated", nil, map[string]string{"/ammo/users.csv": "user_id,name\n1,\"alice\n2,bob\n"}, false},
	{"json-source-empty", nil, map[string]string{"/ammo/filter.json": ""}, true},
	{"json-source-invalid", nil, map[string]string{"/ammo/filter.json": "{\"a\": [1, 2"}, true},
	{"json-source-empty-array", nil, map[string]string{"/ammo/filter.json": "[]"}, false},
	{"unknown-vs-type", map[string]string{"vs_type": "file/nosuch"}, nil, true},
	{"unknown-postprocessor", map[string]string{"post_type": "var/nosuch"}, nil, true},
	{"unknown-templater", map[string]string{"templater": "nosuch"}, nil, true},
	{"unknown-preprocessor", map[string]string{"pre_type": "nosuch"}, nil, true},
	{"mapping-negative-index-beyond-length", map[string]string{"mapping": "source.users[-5].user_id"}, nil, false},
	{"mapping-negative-index", map[string]string{"mapping": "source.users[-1].user_id"}, nil, false},
	{"mapping-index-beyond-length", map[string]string{"mapping": "source.users[7].user_id"}, nil, false},
	{"mapping-last", map[string]string{"mapping": "source.users[last].user_id"}, nil, false},
	{"mapping-rand", map[string]string{"mapping": "source.users[rand].user_id"}, nil, false},
	{"mapping-unknown-source", map[string]string{"mapping": "source.nosuch[next].x"}, nil, false},
	{"mapping-bad-index", map[string]string{"mapping": "source.users[abc].user_id"}, nil, false},
	{"mapping-unclosed-index", map[string]string{"mapping": "source.users[next.user_id"}, nil, false},
	{"mapping-empty", map[string]string{"mapping": "\"\""}, nil, false},
	// two scenarios with one name (a copied block whose name was never changed; YAML descriptions)
	{"duplicate-scenario-names", map[string]string{"s2_name": "s1"}, nil, false},
	{"duplicate-scenario-names-and-weights", map[string]string{"s2_name": "s1", "weight": "1"}, nil, false},
	// XPath expressions that are valid but do not select nodes (http/scenario in YAML only)
	{"xpath-returns-a-number", map[string]string{"extra_post": "var/xpath|cnt|count(//a)"}, nil, false},
	{"xpath-returns-a-string", map[string]string{"extra_post": "var/xpath|cnt|string(//title)"}, nil, false},
	{"xpath-returns-a-boolean", map[string]string{"extra_post": "var/xpath|cnt|boolean(//a)"}, nil, false},
	{"xpath-invalid", map[string]string{"extra_post": "var/xpath|cnt|//a["}, nil, false},
	{"xpath-selects-nothing", map[string]string{"extra_post": "var/xpath|cnt|//nosuch/@href"}, nil, false},
	// the documented randomisation functions with hostile arguments (a mapping is evaluated at every shot)
	{"mapping-randint-equal-bounds", map[string]string{"mapping": "randInt(5, 5)"}, nil, false},
	{"mapping-randint-extreme-bounds", map[string]string{"mapping": "randInt(-9223372036854775808, 9223372036854775807)"}, nil, false},
	{"mapping-randint-not-a-number", map[string]string{"mapping": "randInt(a, b)"}, nil, false},
	{"mapping-randint-three-arguments", map[string]string{"mapping": "randInt(1, 2, 3)"}, nil, false},
	{"mapping-randstring-negative-length", map[string]string{"mapping": "randString(-5)"}, nil, false},
	{"mapping-randstring-zero-length", map[string]string{"mapping": "randString(0, ab)"}, nil, false},
	{"mapping-randstring-absurd-length", map[string]string{"mapping": "randString(4611686018427387904)"}, nil, false},
	{"mapping-unknown-function", map[string]string{"mapping": "randFloat(1)"}, nil, false},
	{"mapping-function-unclosed", map[string]string{"mapping": "randInt(1, 2"}, nil, false},
}

func c13Scenario(r *R) {
	w := r.W
	grpc := w.Draw(3) == 0
	hcl := !grpc && w.Draw(3) == 0
	d := c13ScDefects[w.Draw(len(c13ScDefects))]
	files := map[string][]byte{"/ammo/users.csv": []byte(c13CSV), "/ammo/filter.json": []byte("{\"a\": [1, 2, 3]}")}
	for k, v := range d.Files {
		if v == "-" {
			delete(files, k)
		} else {
			files[k] = []byte(v)
		}
	}
	name := "/ammo/scenario.yaml"
	var text string
	if hcl {
		name = "/ammo/scenario.hcl"
		text = c13ScenarioHCL(d.Edit)
	} else {
		text = c13ScenarioYAML(grpc, d.Edit)
	}
	defect := d.Name
	mustErr := d.MustErr
	if hcl {
		// the HCL rendering has no json source, templater or postprocessor: those defects do not apply
		switch {
		case strings.HasPrefix(d.Name, "json-source"), strings.HasPrefix(d.Name, "unknown-"):
			mustErr = false
		}
	}
	if grpc && (d.Name == "unknown-postprocessor" || d.Name == "unknown-templater") {
		mustErr = false
	}
	if !grpc && d.Name == "unknown-preprocessor" {
		mustErr = false
	}
	if w.Draw(4) == 0 {
		cut := w.Draw(len(text) + 1)
		text = text[:cut]
		defect += "+truncated"
		mustErr = false
	}
	files[name] = []byte(text)
	typ := "http/scenario"
	if grpc {
		typ = "grpc/scenario"
	}
	lang := "yaml"
	if hcl {
		lang = "hcl"
	}
	conf := map[string]interface{}{"type": typ, "file": name, "limit": 1 + w.Draw(6)}
	r.Sample(map[string]any{"mode": "scenario", "provider": typ, "language": lang, "defect": defect, "description": clipB([]byte(text))})
	r.Note("scenario/" + typ + "/" + lang + "/" + defect)
	r.NonTrivial()
	out := runProvider(r, provRun{Conf: conf, Files: files, Consumers: 1 + w.Draw(2), Horizon: 10 * time.Minute, NoRelease: true}, false)
	sig := fmt.Sprintf("scenario/%s/%s/%s", typ, lang, defect)
	switch out.Sim.Class {
	case simrt.Crash:
		r.Fail("CRASH/"+sig+"/"+frameSig(out.Sim.Stack), "%s\n%s\ndescription:\n%s", out.Sim.Detail, out.Sim.Stack, text)
		return
	case simrt.Spin, simrt.Livelock:
		r.Fail("SPIN/"+sig, "%s\n%s", out.Sim.Detail, out.Sim.Stack)
		return
	case simrt.Hang:
		r.Fail("HANG/"+sig, "%d items delivered, Run returned=%v (%v): %s", len(out.All), out.RunDone, out.RunErr, out.Sim.Detail)
		return
	}
	if mustErr && out.NewErr == nil && out.RunErr == nil {
		r.Fail("not-rejected/"+sig, "the scenario description with defect %q was accepted: %d scenarios delivered\n%s", d.Name, len(out.All), text)
	}
	if out.NewErr == nil && out.RunErr == nil && len(out.All) > 0 {
		c13ScenarioShots(r, typ, name, files, sig, text)
	}
	if d.Name == "none" && !strings.Contains(defect, "truncated") && (out.NewErr != nil || out.RunErr != nil) {
		r.Fail("valid-rejected/"+sig, "the valid scenario description was rejected: %v %v\n%s", out.NewErr, out.RunErr, text)
	}
}

// ---- configuration placeholders ----

var c13Placeholders = []struct {
	Name, Val string
	MustErr   bool
}{
	{"plain", "plain-value", false},
	{"empty-braces", "${}", false},
	{"only-colon", "${:}", false},
	{"env-missing", "${NO_SUCH_ENV_VAR_XYZ}", true},
	{"env-explicit-missing", "${env:NO_SUCH_ENV_VAR_XYZ}", true},
	{"env-empty-name", "${env:}", false},
	{"property-without-key", "${property:/ammo/props.properties}", true},
	{"property-missing-file", "${property:/no/such/file#key}", true},
	{"property-empty", "${property:}", false},
	{"property-only-hash", "${property:#}", true},
	{"unknown-tag-type", "${nosuch:thing}", false},
	{"unterminated", "${env:HOME", false},
	{"nested", "${env:${env:HOME}}", false},
	{"two-colons", "${a:b:c}", false},
	{"dollar-only", "$", false},
	{"spaces", "${  property : x  }", true},
	// (@PROPS@ = a properties file the run writes: comment, a line that is only a key, key=value, =v, blank, k2==x, a last line without '=' or newline)
	{"property-defined", "${property:@PROPS@#key}", false},
	{"property-line-without-equals", "${property:@PROPS@#justkey}", true},
	{"property-last-line-without-equals", "${property:@PROPS@#last}", true},
	{"property-unknown", "${property:@PROPS@#nosuch}", true},
	{"property-empty-name", "${property:@PROPS@#}", false},
	{"property-value-with-equals", "${property:@PROPS@#k2}", false},
	// a negative number for an unsigned field (decoded into `U uint`): written out, and through the environment
	{"negative-for-unsigned/plain", "-5", true},
	{"negative-for-unsigned/env", "${env:VERIF_C13_NEG}", true},
	{"negative-for-unsigned/property", "${property:@PROPS@#neg}", true},
}

func init() { os.Setenv("VERIF_C13_NEG", "-5") }

const c13Properties = "# comment\njustkey\nkey=7\nneg=-5\n=8\n\nk2==x\nlast"

func c13Config(r *R) {
	w := r.W
	ph := c13Placeholders[w.Draw(len(c13Placeholders))]
	target := w.Draw(4)
	if strings.HasPrefix(ph.Name, "negative-for-unsigned") {
		target = 4
	}
	r.Sample(map[string]any{"mode": "config", "placeholder": ph.Val, "target_field": target})
	r.Note("config/" + ph.Name)
	r.NonTrivial()
	var err error
	val := ph.Val
	if strings.Contains(val, "@PROPS@") {
		// the resolver opens the file with package os: a real scratch file, written before and removed after the run
		path := filepath.Join(os.TempDir(), fmt.Sprintf("verif-c13-%d-%d.properties", os.Getpid(), r.Seed))
		if werr := os.WriteFile(path, []byte(c13Properties), 0o600); werr != nil {
			r.Note("config/scratch-file-not-writable")
			return
		}
		defer os.Remove(path)
		val = strings.ReplaceAll(val, "@PROPS@", path)
	}
	res := r.Sim(simrt.Config{Horizon: time.Minute, Grace: time.Second, MaxSteps: 10000, TickLimit: 300_000}, false, func() {
		ensureImport()
		GlobalFs.Set(simfs.New())
		switch target {
		case 0: // string field
			var c struct {
				S string `config:"s"`
			}
			err = config.DecodeAndValidate(map[string]interface{}{"s": val}, &c)
		case 1: // int field
			var c struct {
				N int `config:"n"`
			}
			err = config.DecodeAndValidate(map[string]interface{}{"n": val}, &c)
		case 4: // unsigned field
			var c struct {
				U uint `config:"u"`
			}
			err = config.DecodeAndValidate(map[string]interface{}{"u": val}, &c)
			if err == nil {
				err2 := fmt.Sprintf("accepted as %d", c.U)
				r.Note("config/unsigned-" + err2)
			}
		case 2: // duration inside a component config
			_, err = decodeSchedule(map[string]interface{}{"type": "const", "ops": 1, "duration": val})
		default: // a provider's file name
			_, err = decodeProvider(map[string]interface{}{"type": "uri", "uris": []interface{}{"/a"}, "limit": val})
		}
	})
	sig := "config/" + ph.Name
	switch res.Class {
	case simrt.Crash:
		r.Fail("CRASH/"+sig+"/"+frameSig(res.Stack), "decoding the configuration value %q: %s\n%s", ph.Val, res.Detail, res.Stack)
		return
	case simrt.Spin, simrt.Livelock, simrt.Hang:
		r.Fail("HANG/"+sig, "decoding the configuration value %q never returned: %s", ph.Val, res.Detail)
		return
	}
	if ph.MustErr && err == nil {
		r.Fail("not-rejected/"+sig, "the configuration value %q (field kind %d) was accepted without an error", ph.Val, target)
	}
}

// c13ScenarioShots: a description that the provider accepted is also executed: a few shots of the real scenario gun
// against a target that answers every request. A panic that escapes a goroutine (CRASH), a hang or a spin is a
// violation, and so is a panic inside Shoot (the instance's recover turns it into a failure of the whole pool: the
// input was neither rejected with an error nor skipped).
func c13ScenarioShots(r *R, typ, file string, files map[string][]byte, sig, text string) {
	target := "10.0.0.40:8080"
	grpc := typ == "grpc/scenario"
	if grpc {
		target = "10.0.0.40:9090"
	}
	res := runHTTPPool(r, httpPoolSpec{
		Ammo:      map[string]interface{}{"type": typ, "file": file, "limit": 3},
		Gun:       map[string]interface{}{"type": typ, "target": target},
		Instances: 1 + r.W.Draw(2), Tokens: 5, Files: files, Horizon: 10 * time.Minute,
	}, nil, func(nw *simnet.Net) {
		if grpc {
			startGRPCTarget(nw, target, nil)
		} else {
			startHTTPTarget(nw, target, false, func(n int, s *seenReq) respScript {
				return respScript{Status: 200, Hdr: map[string]string{"Content-Type": "application/json"}, Body: []byte("{\"auth_key\": \"k\", \"items\": [1, 2, 3]}")}
			})
		}
	})
	r.Note("scenario-shots/" + typ)
	switch res.Sim.Class {
	case simrt.Crash:
		r.Fail("CRASH/shot/"+sig+"/"+frameSig(res.Sim.Stack), "%s\n%s\ndescription:\n%s", res.Sim.Detail, res.Sim.Stack, text)
	case simrt.Spin, simrt.Livelock:
		r.Fail("SPIN/shot/"+sig, "%s\n%s", res.Sim.Detail, res.Sim.Stack)
	case simrt.Hang:
		r.Fail("HANG/shot/"+sig, "run returned=%v (%v): %s", res.RunDone, res.RunErr, res.Sim.Detail)
	default:
		if res.RunErr != nil && strings.Contains(res.RunErr.Error(), "shoot panic") {
			// the instance's recover keeps the process alive, but the input was not rejected with an error: it
			// raised a panic in the middle of the run, which fails the whole pool
			r.Fail("panic-in-shot/"+sig, "the accepted description made a shot panic: %v\ndescription:\n%s", res.RunErr, text)
		}
	}
}
