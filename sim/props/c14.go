package props

import (
	"context"
	"errors"
	"fmt"
	"strings"
	"syscall"

	"verifsim/simfs"
	"verifsim/simrt"
)

// ---- C14: preload is behaviour-preserving; chosencases selects exactly the listed tags ----

func init() {
	Register(&Prop{
		ID:    "C14",
		Run:   runC14,
		Level: "exploration",
		Rule: "a run = one generated ammo file (1-6 entries with tags from a small alphabet, in-file header lines for uri/uripost) in one of the four HTTP formats (http/json as lines, pretty-printed or array) x limit x passes x a chosencases subset (none, some tags, a tag that matches nothing) " +
			"-> the same file and settings are given to two real providers, preload on and preload off, each run under the simulator (Provider.Run task + 1-3 consumer tasks, drawn read chunking); the delivered sequences and Run results are compared with each other and with the reference (entries whose tag is listed, file order, cyclic, limit counting delivered entries); " +
			"non-trivial = chosencases filtered out at least one entry or a bound ended the run; distinct = distinct schedule-trace hash",
		Components: map[string]string{
			"components/providers/http (provider, decoders, both paths)": "real", "lib/confutil (chosen cases filter)": "real", "core/config + plugin registry": "real",
			"disk": "simulated (simfs)", "consumers": "harness tasks", "clock": "simulated",
		},
	})
}

func runC14(r *R) {
	w := r.W
	kinds := []string{"uri", "uripost", "raw", "json-lines", "json-pretty", "json-array"}
	kind := kinds[w.Draw(len(kinds))]
	format, typ := kind, kind
	l := genLayout(w)
	l.NoFinalNL = false
	if strings.HasPrefix(kind, "json") {
		format, typ = "json", "http/json"
		l.JSONMode = map[string]int{"json-lines": 0, "json-pretty": 1, "json-array": 2}[kind]
	}
	items := genFile(w, format, 6)
	emptyFile := w.Draw(25) == 0
	if emptyFile {
		// an ammo file without a single entry: both paths must end the same way here too
		var keep []absItem
		for _, it := range items {
			if it.Req == nil && w.Draw(2) == 0 {
				keep = append(keep, it) // (in-file header lines may stay)
			}
		}
		items = keep
		r.Note("file-without-entries")
	}
	tagAlpha := []string{"a", "b", "c", "", "two words", "A", "B"} // tags are compared exactly: "A" is not "a"
	var reqs []*absReq
	for _, it := range items {
		if it.Req != nil {
			it.Req.Tag = tagAlpha[w.Draw(len(tagAlpha))]
			reqs = append(reqs, it.Req)
		}
	}
	n := len(reqs)
	var chosen []string
	chosenKind := "none"
	switch w.Draw(5) {
	case 1, 2:
		chosenKind = "some"
		for _, t := range tagAlpha {
			if t != "" && w.Draw(2) == 0 {
				chosen = append(chosen, t)
			}
		}
		if len(chosen) == 0 {
			chosen = []string{"a"}
		}
	case 3:
		chosenKind = "one-present"
		if n > 0 {
			chosen = []string{reqs[w.Draw(n)].Tag}
		} else {
			chosen = []string{"a"}
		}
		if chosen[0] == "" {
			chosen = []string{"a"}
		}
	case 4:
		chosenKind = "nothing"
		chosen = []string{"zzz-no-such-tag"}
	}
	limTab := []int{0, 0, 1, 2, 3, n, n + 1, 2*n + 1}
	limit := limTab[w.Draw(len(limTab))]
	passes := w.Draw(4)
	cons := 1 + w.Draw(3)
	chunk := []int{0, 0, 1, 5, 64}[w.Draw(5)]
	file := renderFile(format, items, l)

	// reference: one pass of the chosen entries
	all := expectedHTTP(format, items)
	var pass []gotReq
	for _, g := range all {
		if len(chosen) == 0 {
			pass = append(pass, g)
			continue
		}
		for _, c := range chosen {
			if c == g.Tag {
				pass = append(pass, g)
				break
			}
		}
	}
	m := len(pass)
	bound := minBound(limit, passes, m) // limit counts delivered entries; a pass is a pass over the file
	if m == 0 {
		bound = 0
	}
	cancelAfter := 0
	if bound < 0 {
		cancelAfter = 2*m + 1 + w.Draw(4)
	}
	r.Sample(map[string]any{"format": kind, "layout": l.String(), "entries": n, "chosencases": chosen, "matching": m, "limit": limit, "passes": passes, "consumers": cons, "read_chunk": chunk, "bound": bound})
	if m < n || bound >= 0 {
		r.NonTrivial()
	}
	r.Note("chosen:" + chosenKind)
	r.Note("format:" + kind)
	ctxSig := fmt.Sprintf("chosen-%s", chosenKind)
	switch {
	case limit > 0 && passes > 0:
		ctxSig += "/limit+passes"
	case limit > 0:
		ctxSig += "/limit"
	case passes > 0:
		ctxSig += "/passes"
	default:
		ctxSig += "/unbounded"
	}

	emptyList := len(chosen) == 0 && w.Draw(2) == 0
	if emptyList {
		r.Note("chosencases-empty-list-written-out")
	}
	closeErr := r.F.Draw(8) == 0
	if closeErr {
		r.Fault("disk:close-error", true)
	}
	run := func(preload bool) *provOut {
		conf := map[string]interface{}{"type": typ, "file": "/ammo/ammo.txt", "limit": limit, "passes": passes, "preload": preload}
		if len(chosen) > 0 {
			cc := make([]interface{}, len(chosen))
			for i, c := range chosen {
				cc[i] = c
			}
			conf["chosencases"] = cc
		} else if emptyList {
			// `chosencases: []` written out: the same as no filter
			conf["chosencases"] = []interface{}{}
		}
		plans := map[string]simfs.Plan{}
		if chunk > 0 || closeErr {
			p := simfs.NoPlan()
			p.ReadChunk = chunk
			if closeErr {
				// closing the ammo file fails (a network file system reporting a late error): both modes deliver what
				// they deliver without the fault and end with that error
				p.CloseErr = syscall.EIO
			}
			plans["/ammo/ammo.txt"] = p
		}
		return runProvider(r, provRun{Conf: conf, Files: map[string][]byte{"/ammo/ammo.txt": file}, Plans: plans, Consumers: cons, CancelAfter: cancelAfter, Extract: extractHTTP}, false)
	}
	type outcome struct {
		class string // how the run ended
		seq   []gotReq
		out   *provOut
	}
	classify := func(o *provOut, preload bool) outcome {
		oc := outcome{out: o, seq: o.All}
		switch {
		case o.Sim.Class == simrt.Crash:
			oc.class = "crash"
		case o.Sim.Class == simrt.Spin || o.Sim.Class == simrt.Livelock:
			oc.class = "never-ends(spinning)"
		case o.Sim.Class == simrt.Hang:
			oc.class = "never-ends(blocked)"
		case o.NewErr != nil:
			oc.class = "construction-error"
		case o.RunErr == nil:
			oc.class = "ok"
		case errors.Is(o.RunErr, context.Canceled):
			oc.class = "cancelled"
		default:
			oc.class = "error"
		}
		return oc
	}
	on := classify(run(true), true)
	off := classify(run(false), false)
	detail := func(oc outcome) string {
		s := fmt.Sprintf("%s, %d items", oc.class, len(oc.seq))
		if oc.out.RunErr != nil {
			s += fmt.Sprintf(", Run error %q", oc.out.RunErr)
		}
		if oc.out.NewErr != nil {
			s += fmt.Sprintf(", construction error %q", oc.out.NewErr)
		}
		if oc.out.Sim.Class != simrt.OK {
			s += ", " + oc.out.Sim.Detail
		}
		return s
	}
	for _, no := range []struct {
		name string
		oc   outcome
	}{{"preload", on}, {"streaming", off}} {
		name, oc := no.name, no.oc
		if oc.class == "crash" {
			r.Fail("CRASH/"+name+"/"+frameSig(oc.out.Sim.Stack), "%s\n%s", oc.out.Sim.Detail, oc.out.Sim.Stack)
			return
		}
		for _, e := range oc.out.ExtractEr {
			r.Fail("bad-ammo/"+name+"/"+kind, "%s", e)
		}
	}
	// (1) differential: same ending, same sequence
	norm := func(c string) string {
		if c == "cancelled" {
			return "ok" // after the harness's cancel nil and the context error are both fine
		}
		return c
	}
	if norm(on.class) != norm(off.class) {
		r.Fail("ends-differently/"+ctxSig, "%s ammo: with preload the run ended: %s; without preload: %s (limit %d, passes %d, chosencases %q, %d of %d entries match)", kind, detail(on), detail(off), limit, passes, chosen, m, n)
	}
	cmpN := len(on.seq)
	if cancelAfter > 0 {
		cmpN = cancelAfter // after the cancel either path may hand out a few more
	}
	if cons == 1 {
		a, b := on.seq, off.seq
		if cancelAfter > 0 {
			if len(a) > cmpN {
				a = a[:cmpN]
			}
			if len(b) > cmpN {
				b = b[:cmpN]
			}
		}
		if len(a) != len(b) {
			r.Fail("sequence-differs/count/"+ctxSig, "preload delivered %d items, streaming %d (limit %d, passes %d, chosencases %q, %d of %d entries match)", len(on.seq), len(off.seq), limit, passes, chosen, m, n)
		} else {
			for i := range a {
				if !sameReq(a[i], b[i]) {
					r.Fail("sequence-differs/content/"+ctxSig, "item %d: preload delivered %s, streaming %s", i, a[i].key(), b[i].key())
					break
				}
			}
		}
	} else if cancelAfter == 0 && len(on.seq) != len(off.seq) {
		r.Fail("sequence-differs/count/"+ctxSig, "preload delivered %d items, streaming %d (limit %d, passes %d, chosencases %q, %d of %d entries match)", len(on.seq), len(off.seq), limit, passes, chosen, m, n)
	}
	// (2) absolute: exactly the listed tags, file order, limit counts delivered entries
	for _, no := range []struct {
		name string
		oc   outcome
	}{{"preload", on}, {"streaming", off}} {
		name, oc := no.name, no.oc
		if oc.class != "ok" && oc.class != "cancelled" && oc.class != "error" {
			continue
		}
		var ref []gotReq
		want := bound
		if bound < 0 {
			want = len(oc.seq)
		}
		for i := 0; i < want && m > 0; i++ {
			ref = append(ref, pass[i%m])
		}
		if bound >= 0 && len(oc.seq) != bound && m > 0 {
			cls := "too-few"
			if len(oc.seq) > bound {
				cls = "too-many"
			}
			r.Fail("count/"+cls+"/"+name+"/"+ctxSig, "%s, "+kind+" ammo: %d items delivered, want %d = min(limit %d, passes %d x %d matching entries) (file has %d entries, chosencases %q)", name, len(oc.seq), bound, limit, passes, m, n, chosen)
			continue
		}
		if m == 0 && len(oc.seq) > 0 {
			r.Fail("unlisted-tag-delivered/"+name+"/"+ctxSig, "%s: %d items delivered although no entry carries a listed tag; first: %s", name, len(oc.seq), oc.seq[0].key())
			continue
		}
		for ci, seq := range oc.out.PerCons {
			refc := ref
			if bound < 0 {
				// cyclic reference long enough for this consumer
				refc = nil
				for i := 0; i < len(oc.seq)+m; i++ {
					refc = append(refc, pass[i%m])
				}
			}
			if cons == 1 {
				for i := range seq {
					if i >= len(refc) || !sameReq(seq[i], refc[i]) {
						exp := "nothing"
						if i < len(refc) {
							exp = refc[i].key()
						}
						r.Fail("wrong-entry/"+name+"/"+ctxSig, "%s: item %d is %s, want %s (chosencases %q)", name, i, seq[i].key(), exp, chosen)
						break
					}
				}
			} else if !subsequenceOf(seq, refc) {
				r.Fail("wrong-entry/"+name+"/"+ctxSig, "%s: the items of consumer %d (%d) are not a subsequence of the expected delivery order (chosencases %q)", name, ci, len(seq), chosen)
			}
		}
	}
}
