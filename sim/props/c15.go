package props

import (
	"context"
	"encoding/json"
	"errors"
	"fmt"
	"net/url"
	"regexp"
	"sort"
	"strconv"
	"strings"
	"time"

	"verifsim/simnet"
	"verifsim/simrt"
)

// ---- C15: scenario execution: order, multiplicity, variable flow, stop on failure ----

func init() {
	Register(&Prop{
		ID:    "C15",
		Run:   runC15,
		Level: "exploration",
		Rule: "a run = a generated http/scenario description (1-3 weighted scenarios; per scenario an auth step capturing a token and a trace header, list / order / plain / pick steps (pick renders an element of the captured list into its URI; now and then an order or pick step stands before any list step, so that its preprocessor or its template fails before anything is sent) with multiplicities name(n), name(n, sleep), sleep(ms), min_waiting_time; URIs, headers and bodies templated from the token, the captured header, a [next] data-source row, rows by position ([0], [last], [n-1], [rand]) and a [next] element of a captured JSON array; assert/response on every step) " +
			"read by the real scenario provider, executed by the real http/scenario gun and engine with 1-4 instances against a real net/http server in the bubble whose answers (fresh tokens, item lists) and failures (500 against an assertion, connection closed without response, non-JSON body where a jsonpath is extracted) come from the tape; " +
			"oracle = interpreter of the abstract description over the target's ordered log grouped by token: order, multiplicities, pauses, rendered values, nothing after the first failing step, one sample per executed step with the documented tag, invocation counts per weight, [next] rows consecutive; non-trivial = at least two instances or a failing step; distinct = distinct schedule-trace hash",
		Components: map[string]string{
			"components/providers/scenario (provider, config, http decode, vs, templater, pre/postprocessors)": "real", "components/guns/http_scenario": "real", "lib/mp (map, iterator)": "real", "core/engine": "real",
			"net/http client transport": "real (stdlib, un-yielded)", "target": "real net/http server in the bubble, scripted", "network": "simulated (simnet)", "disk": "simulated (simfs)", "aggregator": "recording stub", "clock": "simulated",
		},
	})
}

type c15Step struct {
	Kind  string // auth, list, order, plain
	Sleep time.Duration
}

type c15Scenario struct {
	Name   string
	Weight int
	// WeightUnset: the description gives the scenario no weight (it counts as 1)
	WeightUnset bool
	MWT         time.Duration
	Lines       []string  // the request list as written
	Steps       []c15Step // expanded reference
}

func c15GenScenario(w *simrt.Stream, i int) c15Scenario {
	sc := c15Scenario{Name: fmt.Sprintf("s%d", i), Weight: 1 + w.Draw(4), MWT: []time.Duration{0, 0, 50 * time.Millisecond, 400 * time.Millisecond}[w.Draw(4)]}
	add := func(kind string, n int, sleep time.Duration, form int) {
		name := fmt.Sprintf("s%d_%s", i, kind)
		switch {
		case form == 0 && n == 1 && sleep == 0:
			sc.Lines = append(sc.Lines, name)
		case sleep == 0:
			sc.Lines = append(sc.Lines, fmt.Sprintf("%s(%d)", name, n))
		default:
			sc.Lines = append(sc.Lines, fmt.Sprintf("%s(%d, %d)", name, n, sleep.Milliseconds()))
		}
		for k := 0; k < n; k++ {
			sc.Steps = append(sc.Steps, c15Step{Kind: kind, Sleep: sleep})
		}
	}
	pause := func() {
		if w.Draw(3) == 0 {
			d := time.Duration(10+w.Draw(300)) * time.Millisecond
			sc.Lines = append(sc.Lines, fmt.Sprintf("sleep(%d)", d.Milliseconds()))
			sc.Steps[len(sc.Steps)-1].Sleep += d
		}
	}
	sleeps := []time.Duration{0, 0, 20 * time.Millisecond, 150 * time.Millisecond}
	add("auth", 1, sleeps[w.Draw(4)], w.Draw(2))
	pause()
	haveList := false
	nsteps := w.Draw(4)
	for k := 0; k < nsteps; k++ {
		kinds := []string{"list", "plain", "order", "pick"}
		kind := kinds[w.Draw(4)]
		if (kind == "order" || kind == "pick") && !haveList && w.Draw(8) != 0 {
			// (one time in eight the step stays where it is: its preprocessor / its URI template refers to the list
			// step's captured items, which do not exist yet - the step fails before anything is sent)
			kind = "list"
		}
		if kind == "list" {
			haveList = true
		}
		add(kind, 1+w.Draw(3), sleeps[w.Draw(4)], w.Draw(2))
		pause()
	}
	return sc
}

func c15YAML(scs []c15Scenario, rows int, plainPost bool, funcs bool, listTempl string, twin bool) (string, string) {
	var csv strings.Builder
	csv.WriteString("id,name\n")
	for r := 0; r < rows; r++ {
		fmt.Fprintf(&csv, "%d,user%d\n", 100+r, r)
	}
	var b strings.Builder
	b.WriteString("variable_sources:\n  - name: users\n    type: file/csv\n    file: /ammo/users.csv\n    fields: [id, name]\n    ignore_first_line: true\n    delimiter: ','\n")
	if twin {
		b.WriteString("  - name: ja\n    type: file/json\n    file: /ammo/ja.json\n  - name: jb\n    type: file/json\n    file: /ammo/jb.json\n")
	}
	if funcs {
		b.WriteString("  - name: global\n    type: variables\n    variables:\n      host: glob.example\n      max: 500\n      fixed: 'randInt(1000, 2000)'\n      pick: 'randString(6, qrs)'\n")
	}
	b.WriteString("calls: [ ]\nrequests:\n")
	for i := range scs {
		p := fmt.Sprintf("s%d", i)
		fmt.Fprintf(&b, "  - name: %s_auth\n    method: POST\n    uri: /%s/auth\n    tag: a%d\n    headers:\n      Content-Type: application/json\n", p, p, i)
		fmt.Fprintf(&b, "    body: '{\"uid\": {{.request.%s_auth.preprocessor.uid}}}'\n    preprocessor:\n      mapping:\n        uid: source.users[next].id\n", p)
		fmt.Fprintf(&b, "    postprocessors:\n      - type: var/jsonpath\n        mapping:\n          token: $.token\n      - type: var/header\n        mapping:\n          trace: X-Trace\n      - type: assert/response\n        status_code: 200\n")
		fmt.Fprintf(&b, "  - name: %s_list\n    method: GET\n    uri: '/%s/list?t={{.request.%s_auth.postprocessor.token}}'\n    tag: l%d\n    headers:\n      Authorization: 'Bearer {{.request.%s_auth.postprocessor.token}}'\n      X-Trace-Echo: '{{.request.%s_auth.postprocessor.trace}}'\n", p, p, p, i, p, p)
		if listTempl != "" {
			fmt.Fprintf(&b, "    templater:\n      type: %s\n", listTempl)
		}
		fmt.Fprintf(&b, "    postprocessors:\n      - type: var/jsonpath\n        mapping:\n          items: $.items\n      - type: assert/response\n        status_code: 200\n")
		fmt.Fprintf(&b, "  - name: %s_order\n    method: POST\n    uri: '/%s/order?t={{.request.%s_auth.postprocessor.token}}'\n    tag: o%d\n    headers:\n      Content-Type: application/json\n", p, p, p, i)
		fmt.Fprintf(&b, "    body: '{\"item\": {{.request.%s_order.preprocessor.item}}}'\n    preprocessor:\n      mapping:\n        item: request.%s_list.postprocessor.items[next]\n    postprocessors:\n      - type: assert/response\n        status_code: 200\n", p, p)
		fmt.Fprintf(&b, "  - name: %s_plain\n    method: GET\n    uri: '/%s/plain?t={{.request.%s_auth.postprocessor.token}}'\n    tag: p%d\n    headers:\n      X-Trace-Echo: '{{.request.%s_auth.postprocessor.trace}}'\n", p, p, p, i, p)
		// data-source rows by position: the first, the last (by number and by [last]), a random one
		fmt.Fprintf(&b, "      X-First: '{{.request.%s_plain.preprocessor.first}}'\n      X-Last: '{{.request.%s_plain.preprocessor.last}}'\n      X-LastN: '{{.request.%s_plain.preprocessor.lastn}}'\n      X-Rand: '{{.request.%s_plain.preprocessor.rnd}}'\n", p, p, p, p)
		if funcs {
			// the documented randomisation functions, in templates and in the preprocessor, and a `variables` source
			b.WriteString("      X-Uuid: '{{ uuid }}'\n      X-Rand-Int: '{{ randInt 100 200 }}'\n      X-Rand-Int1: '{{ randInt 7 }}'\n      X-Rand-Int0: '{{ randInt }}'\n      X-Rand-Str: '{{ randString 5 \"abc\" }}'\n      X-Rand-Src: '{{ randInt 300 .source.global.max }}'\n")
			b.WriteString("      X-Glob-Host: '{{.source.global.host}}'\n      X-Glob-Fixed: '{{.source.global.fixed}}'\n      X-Glob-Pick: '{{.source.global.pick}}'\n")
			fmt.Fprintf(&b, "      X-Pre-Int: '{{.request.%s_plain.preprocessor.rint}}'\n      X-Pre-Str: '{{.request.%s_plain.preprocessor.rstr}}'\n      X-Pre-Uuid: '{{.request.%s_plain.preprocessor.ruuid}}'\n", p, p, p)
		}
		if twin {
			fmt.Fprintf(&b, "      X-Ja: '{{.request.%s_plain.preprocessor.ja}}'\n      X-Jb: '{{.request.%s_plain.preprocessor.jb}}'\n", p, p)
		}
		fmt.Fprintf(&b, "    preprocessor:\n      mapping:\n        first: source.users[0].name\n        last: source.users[last].name\n        lastn: source.users[%d].name\n        rnd: source.users[rand].name\n", rows-1)
		if twin {
			b.WriteString("        ja: source.ja.items[next].v\n        jb: source.jb.items[next].v\n")
		}
		if funcs {
			b.WriteString("        rint: randInt(10, 20)\n        rstr: randString(4, xy)\n        ruuid: uuid()\n")
		}
		if plainPost {
			b.WriteString("    postprocessors:\n      - type: assert/response\n        status_code: 200\n")
		}
		fmt.Fprintf(&b, "  - name: %s_pick\n    method: GET\n    uri: '/%s/pick?t={{.request.%s_auth.postprocessor.token}}&i={{index .request.%s_list.postprocessor.items 0}}'\n    tag: k%d\n", p, p, p, p, i)
	}
	b.WriteString("scenarios:\n")
	for _, sc := range scs {
		if sc.WeightUnset {
			fmt.Fprintf(&b, "  - name: %s\n    min_waiting_time: %d\n    requests:\n", sc.Name, sc.MWT.Milliseconds())
		} else {
			fmt.Fprintf(&b, "  - name: %s\n    weight: %d\n    min_waiting_time: %d\n    requests:\n", sc.Name, sc.Weight, sc.MWT.Milliseconds())
		}
		for _, l := range sc.Lines {
			fmt.Fprintf(&b, "      - %s\n", l)
		}
	}
	return b.String(), csv.String()
}

// c15HCL renders the same description in HCL.
func c15HCL(scs []c15Scenario, rows int, plainPost bool, funcs bool, listTempl string, twin bool) string {
	var b strings.Builder
	b.WriteString("variable_source \"users\" \"file/csv\" {\n  file              = \"/ammo/users.csv\"\n  fields            = [\"id\", \"name\"]\n  ignore_first_line = true\n  delimiter         = \",\"\n}\n")
	if twin {
		b.WriteString("variable_source \"ja\" \"file/json\" {\n  file = \"/ammo/ja.json\"\n}\nvariable_source \"jb\" \"file/json\" {\n  file = \"/ammo/jb.json\"\n}\n")
	}
	if funcs {
		b.WriteString("variable_source \"global\" \"variables\" {\n  variables = {\n    host  = \"glob.example\"\n    max   = 500\n    fixed = \"randInt(1000, 2000)\"\n    pick  = \"randString(6, qrs)\"\n  }\n}\n")
	}
	for i := range scs {
		p := fmt.Sprintf("s%d", i)
		fmt.Fprintf(&b, "request \"%s_auth\" {\n  method = \"POST\"\n  uri    = \"/%s/auth\"\n  tag    = \"a%d\"\n  headers = {\n    Content-Type = \"application/json\"\n  }\n  body = <<EOF\n{\"uid\": {{.request.%s_auth.preprocessor.uid}}}\nEOF\n", p, p, i, p)
		b.WriteString("  preprocessor {\n    mapping = {\n      uid = \"source.users[next].id\"\n    }\n  }\n")
		b.WriteString("  postprocessor \"var/jsonpath\" {\n    mapping = {\n      token = \"$.token\"\n    }\n  }\n  postprocessor \"var/header\" {\n    mapping = {\n      trace = \"X-Trace\"\n    }\n  }\n  postprocessor \"assert/response\" {\n    status_code = 200\n  }\n}\n")
		fmt.Fprintf(&b, "request \"%s_list\" {\n  method = \"GET\"\n  uri    = \"/%s/list?t={{.request.%s_auth.postprocessor.token}}\"\n  tag    = \"l%d\"\n  headers = {\n    Authorization = \"Bearer {{.request.%s_auth.postprocessor.token}}\"\n    X-Trace-Echo  = \"{{.request.%s_auth.postprocessor.trace}}\"\n  }\n", p, p, p, i, p, p)
		if listTempl != "" {
			fmt.Fprintf(&b, "  templater {\n    type = \"%s\"\n  }\n", listTempl)
		}
		b.WriteString("  postprocessor \"var/jsonpath\" {\n    mapping = {\n      items = \"$.items\"\n    }\n  }\n  postprocessor \"assert/response\" {\n    status_code = 200\n  }\n}\n")
		fmt.Fprintf(&b, "request \"%s_order\" {\n  method = \"POST\"\n  uri    = \"/%s/order?t={{.request.%s_auth.postprocessor.token}}\"\n  tag    = \"o%d\"\n  headers = {\n    Content-Type = \"application/json\"\n  }\n  body = <<EOF\n{\"item\": {{.request.%s_order.preprocessor.item}}}\nEOF\n", p, p, p, i, p)
		fmt.Fprintf(&b, "  preprocessor {\n    mapping = {\n      item = \"request.%s_list.postprocessor.items[next]\"\n    }\n  }\n  postprocessor \"assert/response\" {\n    status_code = 200\n  }\n}\n", p)
		fmt.Fprintf(&b, "request \"%s_plain\" {\n  method = \"GET\"\n  uri    = \"/%s/plain?t={{.request.%s_auth.postprocessor.token}}\"\n  tag    = \"p%d\"\n  headers = {\n    X-Trace-Echo = \"{{.request.%s_auth.postprocessor.trace}}\"\n    X-First      = \"{{.request.%s_plain.preprocessor.first}}\"\n    X-Last       = \"{{.request.%s_plain.preprocessor.last}}\"\n    X-LastN      = \"{{.request.%s_plain.preprocessor.lastn}}\"\n    X-Rand       = \"{{.request.%s_plain.preprocessor.rnd}}\"\n", p, p, p, i, p, p, p, p, p)
		if funcs {
			b.WriteString("    X-Uuid       = \"{{ uuid }}\"\n    X-Rand-Int   = \"{{ randInt 100 200 }}\"\n    X-Rand-Int1  = \"{{ randInt 7 }}\"\n    X-Rand-Int0  = \"{{ randInt }}\"\n    X-Rand-Str   = \"{{ randString 5 \\\"abc\\\" }}\"\n    X-Rand-Src   = \"{{ randInt 300 .source.global.max }}\"\n")
			b.WriteString("    X-Glob-Host  = \"{{.source.global.host}}\"\n    X-Glob-Fixed = \"{{.source.global.fixed}}\"\n    X-Glob-Pick  = \"{{.source.global.pick}}\"\n")
			fmt.Fprintf(&b, "    X-Pre-Int    = \"{{.request.%s_plain.preprocessor.rint}}\"\n    X-Pre-Str    = \"{{.request.%s_plain.preprocessor.rstr}}\"\n    X-Pre-Uuid   = \"{{.request.%s_plain.preprocessor.ruuid}}\"\n", p, p, p)
		}
		if twin {
			fmt.Fprintf(&b, "    X-Ja         = \"{{.request.%s_plain.preprocessor.ja}}\"\n    X-Jb         = \"{{.request.%s_plain.preprocessor.jb}}\"\n", p, p)
		}
		b.WriteString("  }\n")
		extra := ""
		if twin {
			extra += "      ja    = \"source.ja.items[next].v\"\n      jb    = \"source.jb.items[next].v\"\n"
		}
		if funcs {
			extra += "      rint  = \"randInt(10, 20)\"\n      rstr  = \"randString(4, xy)\"\n      ruuid = \"uuid()\"\n"
		}
		fmt.Fprintf(&b, "  preprocessor {\n    mapping = {\n      first = \"source.users[0].name\"\n      last  = \"source.users[last].name\"\n      lastn = \"source.users[%d].name\"\n      rnd   = \"source.users[rand].name\"\n%s    }\n  }\n", rows-1, extra)
		if plainPost {
			b.WriteString("  postprocessor \"assert/response\" {\n    status_code = 200\n  }\n")
		}
		b.WriteString("}\n")
		fmt.Fprintf(&b, "request \"%s_pick\" {\n  method = \"GET\"\n  uri    = \"/%s/pick?t={{.request.%s_auth.postprocessor.token}}&i={{index .request.%s_list.postprocessor.items 0}}\"\n  tag    = \"k%d\"\n  headers = {}\n}\n", p, p, p, p, i)
	}
	for _, sc := range scs {
		if sc.WeightUnset {
			fmt.Fprintf(&b, "scenario \"%s\" {\n  min_waiting_time = %d\n  requests         = [\n", sc.Name, sc.MWT.Milliseconds())
		} else {
			fmt.Fprintf(&b, "scenario \"%s\" {\n  weight           = %d\n  min_waiting_time = %d\n  requests         = [\n", sc.Name, sc.Weight, sc.MWT.Milliseconds())
		}
		for _, l := range sc.Lines {
			fmt.Fprintf(&b, "    \"%s\",\n", l)
		}
		b.WriteString("  ]\n}\n")
	}
	return b.String()
}

type c15Auth struct {
	Token, Trace string
	UID          string
	Scenario     int
}

func runC15(r *R) {
	w, f := r.W, r.F
	nsc := 1 + w.Draw(3)
	var scs []c15Scenario
	for i := 0; i < nsc; i++ {
		scs = append(scs, c15GenScenario(w, i))
	}
	// one description in four with several scenarios leaves the weight of one of them out, the others get even weights
	// (an unset weight counts as 1, whatever the others have in common)
	if nsc >= 2 && w.Draw(4) == 0 {
		u := w.Draw(nsc)
		for i := range scs {
			if i == u {
				scs[i].Weight, scs[i].WeightUnset = 1, true
			} else {
				scs[i].Weight = 2 * (1 + w.Draw(3))
			}
		}
		r.Note("a-scenario-without-weight")
	}
	rows := 1 + w.Draw(5)
	inst := 1 + w.Draw(4)
	passes := 1 + w.Draw(2)
	// one run in thirty: weights whose reduced ring is long (hundreds to thousands of invocations), one whole ring of
	// minimal scenarios (the auth step only), to see the proportions of very unequal weights
	longRing := w.Draw(30) == 0
	if longRing {
		nsc = 2
		scs = scs[:0]
		big := []int{1, 3, 7, 200, 600, 1000, 1001}
		for i := 0; i < nsc; i++ {
			sc := c15Scenario{Name: fmt.Sprintf("s%d", i), Weight: big[w.Draw(len(big))], Lines: []string{fmt.Sprintf("s%d_auth", i)}, Steps: []c15Step{{Kind: "auth"}}}
			scs = append(scs, sc)
		}
		passes, inst = 1, 2+w.Draw(3)
		r.Note("long-weight-ring")
	}
	// one run in six with several scenarios: the second scenario is made of the first one's requests (two scenarios
	// sharing their steps: every sample still names the scenario that was invoked). Such runs have no faults and no cancel,
	// so that the number of invocations per scenario is known.
	alias := !longRing && nsc >= 2 && w.Draw(6) == 0
	if alias {
		nsc = 2
		scs = scs[:2]
		scs[1].Lines, scs[1].Steps = scs[0].Lines, scs[0].Steps
		r.Note("two-scenarios-sharing-their-requests")
	}
	g := 0
	for _, sc := range scs {
		g = gcd(g, sc.Weight)
	}
	ring := 0
	perPass := make([]int, nsc)
	for i, sc := range scs {
		perPass[i] = sc.Weight / g
		if nsc == 1 {
			perPass[i] = 1
		}
		ring += perPass[i]
	}
	invocations := ring * passes
	plainPost := w.Draw(2) == 0
	// half of the runs use the documented randomisation functions (templates, preprocessor, a `variables` source);
	// the list step names its templater now and then (text is the default; html renders the same text for the
	// alphanumeric values used here)
	funcs := w.Draw(2) == 0
	listTempl := []string{"", "", "text", "html"}[w.Draw(4)]
	if funcs {
		r.Note("random-functions")
	}
	if listTempl != "" {
		r.Note("templater:" + listTempl)
	}
	// one run in three: two json sources that both keep their rows under `items`, each walked with [next] by the plain step
	twin := w.Draw(3) == 0 && !alias
	if twin {
		r.Note("two-sources-with-equally-named-arrays")
	}
	yaml, csv := c15YAML(scs, rows, plainPost, funcs, listTempl, twin)
	descFile := "/ammo/scenario.yaml"
	// one YAML description in three: the first step (auth) carries a header whose template looks at a *later* step of
	// the scenario. Values come from earlier steps of the same invocation only: nothing has been captured for that step
	// when auth is rendered, whatever earlier invocations on the same instance captured
	fwd := w.Draw(3) == 0
	if fwd {
		for i := range scs {
			p := fmt.Sprintf("s%d", i)
			yaml = strings.Replace(yaml, fmt.Sprintf("    uri: /%s/auth\n    tag: a%d\n    headers:\n", p, i),
				fmt.Sprintf("    uri: /%s/auth\n    tag: a%d\n    headers:\n      X-Fwd: '{{with .request.%s_list}}captured{{else}}none{{end}}'\n", p, i, p), 1)
		}
		r.Note("forward-reference-in-first-step")
	}
	if w.Draw(4) == 0 {
		fwd = false
		// the same description written in HCL
		yaml = c15HCL(scs, rows, plainPost, funcs, listTempl, twin)
		descFile = "/ammo/scenario.hcl"
		r.Note("description:hcl")
	}
	lat := []time.Duration{100 * time.Microsecond, 2 * time.Millisecond, 15 * time.Millisecond}[w.Draw(3)]
	// faults: per request arrival index
	nfaults := 0
	if f.Biased(3, 1, 2) > 0 && !alias {
		nfaults = 1 + f.Draw(2)
	}
	faultAt := map[int]string{}
	for k := 0; k < nfaults; k++ {
		faultAt[f.Draw(invocations*4+4)] = []string{"status-500", "abort", "not-json", "short-body"}[f.Draw(4)]
	}
	var lines []string
	for _, sc := range scs {
		lines = append(lines, fmt.Sprintf("%s(w%d,mwt%v): %s", sc.Name, sc.Weight, sc.MWT, strings.Join(sc.Lines, ", ")))
	}
	r.Sample(map[string]any{"scenarios": lines, "rows": rows, "instances": inst, "passes": passes, "invocations": invocations, "latency": lat.String(), "faults": fmt.Sprint(faultAt)})
	if inst >= 2 || nfaults > 0 {
		r.NonTrivial()
	}

	var (
		mu        simrt.HMutex
		auths     []c15Auth
		listItems = map[int][]float64{} // arrival index of a list request -> the items it was answered with
		listSeq   int
		faulted   = map[int]string{} // arrival index -> kind that actually fired
		kindOf    = func(uri string) (int, string, string) {
			u, err := url.Parse(uri)
			if err != nil {
				return -1, "", ""
			}
			parts := strings.Split(strings.TrimPrefix(u.Path, "/"), "/")
			if len(parts) != 2 || len(parts[0]) < 2 {
				return -1, "", ""
			}
			si := int(parts[0][1] - '0')
			return si, parts[1], u.Query().Get("t")
		}
	)
	script := func(n int, s *seenReq) respScript {
		mu.Lock()
		defer mu.Unlock()
		si, kind, _ := kindOf(s.URI)
		rs := respScript{Status: 200, Hdr: map[string]string{"Content-Type": "application/json"}}
		switch kind {
		case "auth":
			k := len(auths)
			var body struct {
				UID json.Number `json:"uid"`
			}
			json.Unmarshal(s.Body, &body)
			a := c15Auth{Token: fmt.Sprintf("tok%d", k), Trace: fmt.Sprintf("tr%d", k), UID: body.UID.String(), Scenario: si}
			auths = append(auths, a)
			rs.Hdr["X-Trace"] = a.Trace
			rs.Body = []byte(fmt.Sprintf("{\"token\": %q, \"other\": 1}", a.Token))
		case "list":
			listSeq++
			items := []float64{float64(listSeq*10 + 1), float64(listSeq*10 + 2), float64(listSeq*10 + 3)}
			listItems[n] = items
			rs.Body = []byte(fmt.Sprintf("{\"items\": [%v, %v, %v]}", items[0], items[1], items[2]))
		default:
			rs.Body = []byte("{}")
		}
		if fk, ok := faultAt[n]; ok {
			faulted[n] = fk
			switch fk {
			case "status-500":
				rs.Status = 500
				if (kind == "plain" && !plainPost) || kind == "pick" {
					delete(faulted, n) // nothing asserts on this step: a 500 is a reported status, not a failed step
				}
			case "abort":
				if kind == "auth" || kind == "order" {
					rs.Abort = true
				} else {
					// net/http transparently retries an idempotent GET on a kept-alive connection that was closed
					// without a response: not a failed step. A GET step is failed with a 500 instead.
					faulted[n] = "status-500"
					rs.Status = 500
					if (kind == "plain" && !plainPost) || kind == "pick" {
						delete(faulted, n)
					}
				}
			case "short-body":
				// headers promise 100 bytes, 10 arrive, then the connection is closed: a transport error while the body is read
				rs.Abort = true
				rs.Raw = []byte("HTTP/1.1 200 OK\r\nContent-Type: application/json\r\nContent-Length: 100\r\n\r\n{\"token\":")
			case "not-json":
				if kind == "auth" || kind == "list" {
					rs.Body = []byte("<html>this is not json")
				} else {
					delete(faulted, n)
				}
			}
		}
		return rs
	}
	target := "10.0.0.9:8080"
	var tgt *httpTarget
	// one run in six is cancelled by the caller at a drawn instant: an invocation in progress then still runs its
	// remaining steps in order, with its pauses, and reports one sample per step; only the number of invocations is open
	cancelAt := time.Duration(0)
	if !longRing && w.Draw(6) == 0 && !alias {
		cancelAt = time.Duration(1+w.Draw(1500)) * time.Millisecond
	}
	// gun diagnostics (one run in four): httptrace timings and dumps, the answer log, debug-level logging - none of
	// them may change what is sent, in which order, or what is reported
	gun := map[string]interface{}{"type": "http/scenario", "target": target}
	debugLog := false
	if w.Draw(4) == 0 {
		tr, dump := w.Bool(), w.Bool()
		gun["httptrace"] = map[string]interface{}{"trace": tr, "dump": dump}
		diag := fmt.Sprintf("trace=%v dump=%v", tr, dump)
		if fl := []string{"", "all", "warning", "error"}[w.Draw(4)]; fl != "" {
			// (the answer log is a real file opened with os.Create: the null device)
			gun["answlog"] = map[string]interface{}{"enabled": true, "path": "/dev/null", "filter": fl}
			diag += " answlog=" + fl
		}
		if debugLog = w.Draw(2) == 0; debugLog {
			diag += " log-level=debug"
		}
		r.Note("gun-diagnostics-on")
		r.Sample(map[string]any{"scenarios": lines, "rows": rows, "instances": inst, "passes": passes, "invocations": invocations, "latency": lat.String(), "faults": fmt.Sprint(faultAt), "diagnostics": diag})
	}
	// one run in five: the scheduler stalls tasks at scheduling points for up to 500 ms of simulated time (a descheduled
	// or paused process), so that instances are in the middle of different steps at the same time; the upper bound of a
	// pause is then not judged
	stalls := !longRing && w.Draw(5) == 0
	if stalls {
		r.Note("injected-stalls")
	}
	res := runHTTPPool(r, httpPoolSpec{
		Ammo:      map[string]interface{}{"type": "http/scenario", "file": descFile, "limit": invocations},
		Gun:       gun,
		Stalls:    stalls,
		DebugLog:  debugLog,
		CancelAt:  cancelAt,
		Instances: inst, Tokens: invocations + 3,
		Files: map[string][]byte{descFile: []byte(yaml), "/ammo/users.csv": []byte(csv),
			"/ammo/ja.json": []byte(`{"items": [{"v": "a0"}, {"v": "a1"}, {"v": "a2"}, {"v": "a3"}]}`),
			"/ammo/jb.json": []byte(`{"items": [{"v": "b0"}, {"v": "b1"}, {"v": "b2"}, {"v": "b3"}]}`)}, Horizon: 2 * time.Hour,
	}, func(nw *simnet.Net) { nw.Latency = lat }, func(nw *simnet.Net) { tgt = startHTTPTarget(nw, target, false, script) })
	for k := range faulted {
		r.Fault("target:"+faulted[k], true)
	}
	switch res.Sim.Class {
	case simrt.Crash:
		r.Fail("CRASH/"+frameSig(res.Sim.Stack), "%s\n%s\n%s", res.Sim.Detail, res.Sim.Stack, yaml)
		return
	case simrt.Hang, simrt.Livelock, simrt.Spin:
		r.Fail("run-never-ends", "%s (run returned=%v, %d samples)", res.Sim.Detail, res.RunDone, len(res.Samples))
		return
	}
	if res.DecodeErr != nil {
		r.Fail("description-rejected", "the valid scenario description was rejected: %v\n%s", res.DecodeErr, yaml)
		return
	}
	cancelled := res.CancelSeq > 0
	if cancelled {
		r.Note("cancelled-by-the-caller")
	}
	if res.RunErr != nil && !(cancelled && errors.Is(res.RunErr, context.Canceled)) {
		r.Fail("run-error", "Engine.Run returned %v\n%s", res.RunErr, yaml)
		return
	}
	seen := tgt.Seen()
	// group the target's log per invocation: the auth request that produced token T, then everything carrying T
	type inv struct {
		sc    int
		auth  c15Auth
		reqs  []seenReq
		kinds []string
	}
	invs := map[string]*inv{}
	var order []string
	ai := 0
	for _, s := range seen {
		si, kind, tok := kindOf(s.URI)
		if si < 0 || si >= nsc {
			r.Fail("unexpected-request", "the target received %s %s, which no step of the description renders to", s.Method, s.URI)
			return
		}
		if kind == "auth" {
			a := auths[ai]
			ai++
			invs[a.Token] = &inv{sc: si, auth: a, reqs: []seenReq{s}, kinds: []string{"auth"}}
			order = append(order, a.Token)
			continue
		}
		in := invs[tok]
		if in == nil {
			r.Fail("variable-flow/token", "%s %s carries token %q, which no auth response of this run issued (issued: %d tokens)", s.Method, s.URI, tok, len(auths))
			return
		}
		if in.sc != si {
			r.Fail("variable-flow/cross-scenario", "%s belongs to scenario s%d but carries the token issued to an invocation of s%d", s.URI, si, in.sc)
			return
		}
		in.reqs = append(in.reqs, s)
		in.kinds = append(in.kinds, kind)
	}
	// samples per tag
	sampleTags := map[string]int{}
	failedSamples := 0
	for _, s := range res.Samples {
		sampleTags[s.Tags]++
		if s.Proto == 0 {
			failedSamples++
		}
	}
	twinVals := map[int][][2]string{} // scenario -> (X-Ja, X-Jb) of its plain requests
	globFixed := map[string]string{}  // header -> the value of the `variables` source seen first: it is computed once
	seenUUID := map[string]bool{}
	counts := make([]int, nsc)
	executed := map[string]int{} // "<scenario>.<step>" -> executed ok
	failedSteps := map[string]int{}
	for _, tok := range order {
		in := invs[tok]
		sc := scs[in.sc]
		counts[in.sc]++
		// which request of this invocation failed (if any)
		failIdx := -1
		for j, rq := range in.reqs {
			if _, ok := faulted[rq.N]; ok {
				failIdx = j
				break
			}
		}
		wantN := len(sc.Steps)
		// a step that needs the list step's captured items before any list step ran fails on its own (order: the
		// preprocessor finds no such variable; pick: the URI template cannot be rendered): nothing is sent for it
		staticFail := -1
		for j, st := range sc.Steps {
			if st.Kind == "list" {
				break
			}
			if st.Kind == "order" || st.Kind == "pick" {
				staticFail = j
				break
			}
		}
		if staticFail >= 0 {
			wantN = staticFail
		}
		if failIdx >= 0 && (staticFail < 0 || failIdx < staticFail) {
			wantN = failIdx + 1
		} else if staticFail >= 0 {
			failIdx = -1 // (only wrong code gets this far: the answer to a request that should not have been sent)
		}
		var wantKinds []string
		for _, st := range sc.Steps[:min(wantN, len(sc.Steps))] {
			wantKinds = append(wantKinds, st.Kind)
		}
		if strings.Join(in.kinds, ",") != strings.Join(wantKinds, ",") {
			cls := "order-or-multiplicity"
			if (failIdx >= 0 || staticFail >= 0) && len(in.kinds) > wantN {
				cls = "continued-after-failed-step"
			} else if failIdx < 0 && len(in.kinds) < len(wantKinds) {
				cls = "stopped-early"
			}
			fk := ""
			if failIdx < 0 && staticFail >= 0 {
				fk = fmt.Sprintf(" (step %d, %s, cannot be rendered: no list step ran before it)", staticFail, sc.Steps[staticFail].Kind)
			}
			if failIdx >= 0 {
				fk = fmt.Sprintf(" (step %d, %s, was answered with fault %s)", failIdx, in.kinds[failIdx], faulted[in.reqs[failIdx].N])
			}
			r.Fail(cls, "an invocation of %s (request list %s) reached the target as [%s], want [%s]%s", sc.Name, strings.Join(sc.Lines, ", "), strings.Join(in.kinds, ","), strings.Join(wantKinds, ","), fk)
			return
		}
		for j, k := range in.kinds {
			name := fmt.Sprintf("%s.s%d_%s", sc.Name, in.sc, k)
			if j == failIdx {
				failedSteps[name]++
			} else {
				executed[name]++
			}
		}
		if failIdx < 0 && staticFail >= 0 {
			failedSteps[fmt.Sprintf("%s.s%d_%s", sc.Name, in.sc, sc.Steps[staticFail].Kind)]++
			r.Note("step-failed-before-sending:" + sc.Steps[staticFail].Kind)
		}
		// pauses and rendered values
		for j, rq := range in.reqs {
			if j > 0 {
				gap := rq.At - in.reqs[j-1].At
				if gap < sc.Steps[j-1].Sleep {
					r.Fail("pause-too-short", "in %s the step %d (%s) arrived %v after step %d, the description puts a pause of %v between them (request list %s)", sc.Name, j, in.kinds[j], gap, j-1, sc.Steps[j-1].Sleep, strings.Join(sc.Lines, ", "))
					return
				}
				// nothing but the configured pause, the answer's way back and the request's way out (and, after a closed
				// connection, a new connect) lies between two arrivals: a pause that belongs to another entry of the
				// request list (20 ms and more) does not fit in
				if slack := 6*lat + 5*time.Millisecond; !stalls && gap > sc.Steps[j-1].Sleep+slack {
					r.Fail("pause-too-long", "in %s the step %d (%s) arrived %v after step %d, the configured pause is %v (one-way latency %v; request list %s)", sc.Name, j, in.kinds[j], gap, j-1, sc.Steps[j-1].Sleep, lat, strings.Join(sc.Lines, ", "))
					return
				}
			}
			if j == 0 && fwd {
				if fv := strings.Join(rq.Hdr["X-Fwd"], ","); fv != "none" {
					r.Fail("variable-flow/from-another-invocation", "the first step of an invocation of %s was rendered with X-Fwd: %q: its template `{{with .request.<list step>}}captured{{else}}none{{end}}` saw values of a step that has not run in this invocation (request list %s)", sc.Name, fv, strings.Join(sc.Lines, ", "))
					return
				}
			}
			switch in.kinds[j] {
			case "list", "plain":
				if te := strings.Join(rq.Hdr["X-Trace-Echo"], ","); te != in.auth.Trace {
					r.Fail("variable-flow/header", "%s of an invocation whose auth response carried X-Trace: %s arrived with X-Trace-Echo: %q", rq.URI, in.auth.Trace, te)
					return
				}
				if in.kinds[j] == "plain" {
					first, last := "user0", fmt.Sprintf("user%d", rows-1)
					hv := func(k string) string { return strings.Join(rq.Hdr[k], ",") }
					rnd := hv("X-Rand")
					rndOK := false
					for q := 0; q < rows; q++ {
						rndOK = rndOK || rnd == fmt.Sprintf("user%d", q)
					}
					if hv("X-First") != first || hv("X-Last") != last || hv("X-Lastn") != last || !rndOK {
						r.Fail("variable-flow/source-index", "%s arrived with X-First=%q X-Last=%q X-LastN=%q X-Rand=%q; the data source has %d rows: want %s, %s, %s and one of its names", rq.URI, hv("X-First"), hv("X-Last"), hv("X-Lastn"), rnd, rows, first, last, last)
						return
					}
					if twin {
						twinVals[in.sc] = append(twinVals[in.sc], [2]string{hv("X-Ja"), hv("X-Jb")})
					}
					if funcs {
						if bad := c15CheckFuncs(hv, globFixed, seenUUID); bad != "" {
							r.Fail("functions/"+strings.SplitN(bad, ":", 2)[0], "%s: %s (documented: uuid = a random uuid v4; randInt = 0-9 without arguments, 0..n with one, between the two with two; randString(n, letters) = n characters out of letters; values of a `variables` source are computed once)", rq.URI, bad)
							return
						}
					}
				}
				if in.kinds[j] == "list" {
					if a := strings.Join(rq.Hdr["Authorization"], ","); a != "Bearer "+in.auth.Token {
						r.Fail("variable-flow/header", "%s arrived with Authorization: %q, want %q", rq.URI, a, "Bearer "+in.auth.Token)
						return
					}
				}
			}
		}
	}
	_ = globFixed
	// every source walks its own rows: over n evaluations each of the 4 rows of `ja` (and of `jb`) is handed out n/4 times,
	// the first n%4 rows once more - whichever instances made the evaluations and in whatever order
	for si, vals := range twinVals {
		for col, pfx := range []string{"a", "b"} {
			cnt := map[string]int{}
			for _, v := range vals {
				cnt[v[col]]++
			}
			n := len(vals)
			for row := 0; row < 4; row++ {
				want := n / 4
				if row < n%4 {
					want++
				}
				if id := fmt.Sprintf("%s%d", pfx, row); cnt[id] != want {
					r.Fail("next-rows/two-sources", "scenario %s evaluated source.j%s.items[next] %d times: row %d (%s) was handed out %d times, want %d (values of X-Ja / X-Jb in arrival order: %v)", scs[si].Name, pfx, n, row, id, cnt[id], want, vals)
					return
				}
			}
		}
	}
	// order bodies: the item must be an element of the latest list response of the same invocation, and the
	// [next] positions used across all orders of a scenario are consecutive (mod 3)
	posCount := map[int][]int{}
	for _, tok := range order {
		in := invs[tok]
		var cur []float64
		for j, rq := range in.reqs {
			switch in.kinds[j] {
			case "list":
				cur = listItems[rq.N]
			case "pick":
				u, _ := url.Parse(rq.URI)
				if got := u.Query().Get("i"); len(cur) == 0 || got != fmt.Sprint(cur[0]) {
					r.Fail("variable-flow/uri", "%s arrived with i=%q, want the first element of the latest list response of this invocation %v", rq.URI, got, cur)
					return
				}
			case "order":
				var body struct {
					Item *float64 `json:"item"`
				}
				if err := json.Unmarshal(rq.Body, &body); err != nil || body.Item == nil {
					r.Fail("variable-flow/body", "%s arrived with body %s: not the rendered template {\"item\": <element of the captured list>}", rq.URI, clipB(rq.Body))
					return
				}
				pos := -1
				for k, it := range cur {
					if it == *body.Item {
						pos = k
					}
				}
				if pos < 0 {
					r.Fail("variable-flow/body", "%s ordered item %v, the latest list response of this invocation offered %v", rq.URI, *body.Item, cur)
					return
				}
				if posCount[in.sc] == nil {
					posCount[in.sc] = make([]int, 3)
				}
				posCount[in.sc][pos]++
			}
		}
	}
	for si, pc := range posCount {
		n := pc[0] + pc[1] + pc[2]
		for k := 0; k < 3; k++ {
			want := n / 3
			if k < n%3 {
				want++
			}
			if pc[k] != want {
				r.Fail("next-elements", "scenario %s evaluated items[next] %d times: position %d was used %d times, want %d (positions used: %v)", scs[si].Name, n, k, pc[k], want, pc)
				return
			}
		}
	}
	// weights: whole passes over the ring
	if alias && !cancelled {
		if want := (perPass[0] + perPass[1]) * passes; counts[0] != want {
			r.Fail("weights", "two scenarios sharing their requests were invoked %d times in %d passes over the ring, want %d (weights %v)", counts[0], passes, want, weightsOf(scs))
			return
		}
	}
	for i, c := range counts {
		if cancelled || alias {
			break // (whole rings are delivered only by a run that is not cut)
		}
		if c != perPass[i]*passes {
			r.Fail("weights", "scenario %s was invoked %d times in %d passes over the ring, want %d (weights %v)", scs[i].Name, c, passes, perPass[i]*passes, weightsOf(scs))
			return
		}
	}
	// [next] rows: uids of the auth bodies per scenario are consecutive rows mod len, no duplicates or gaps
	perSc := map[int][]string{}
	for _, a := range auths {
		perSc[a.Scenario] = append(perSc[a.Scenario], a.UID)
	}
	for si, uids := range perSc {
		cnt := map[string]int{}
		for _, u := range uids {
			cnt[u]++
		}
		n := len(uids)
		for row := 0; row < rows; row++ {
			want := n / rows
			if row < n%rows {
				want++
			}
			id := fmt.Sprint(100 + row)
			if cnt[id] != want {
				r.Fail("next-rows", "scenario %s evaluated source.users[next] %d times over %d rows: row %d (id %s) was handed out %d times, want %d (all uids: %v)", scs[si].Name, n, rows, row, id, cnt[id], want, uids)
				return
			}
			delete(cnt, id)
		}
		if len(cnt) > 0 {
			r.Fail("next-rows", "scenario %s sent uids that are not rows of the data source: %v", scs[si].Name, cnt)
			return
		}
	}
	if alias {
		// what the target saw as steps of s0 were steps of s0 and of s1 in the proportion of their invocations: the
		// samples name the scenario that was invoked
		split := func(m map[string]int) {
			for n, t := range m {
				if !strings.HasPrefix(n, "s0.") {
					continue
				}
				share0 := t * perPass[0] / (perPass[0] + perPass[1])
				m[n] = share0
				m["s1."+strings.TrimPrefix(n, "s0.")] = t - share0
			}
		}
		split(executed)
		split(failedSteps)
	}
	// samples: one per executed step, tagged <scenario>.<step name>; the failed step carries the failure
	var names []string
	for n := range executed {
		names = append(names, n)
	}
	for n := range failedSteps {
		if _, ok := executed[n]; !ok {
			names = append(names, n)
		}
	}
	sort.Strings(names)
	for _, n := range names {
		ok, failed := executed[n], failedSteps[n]
		gotOK, gotFailed := sampleTags[n], sampleTags[n+"|__EMPTY__"]
		if gotOK != ok || gotFailed != failed {
			r.Fail("samples", "step %s was executed %d times successfully and %d times with a failing answer; %d samples tagged %q and %d tagged %q were reported (all tags: %v)", n, ok, failed, gotOK, n, gotFailed, n+"|__EMPTY__", sampleTags)
			return
		}
	}
	total := 0
	for _, c := range sampleTags {
		total += c
	}
	want := 0
	for _, v := range executed {
		want += v
	}
	for _, v := range failedSteps {
		want += v
	}
	if total != want {
		r.Fail("samples", "%d samples reported for %d executed steps (tags %v)", total, want, sampleTags)
	}
}

func weightsOf(scs []c15Scenario) []int {
	var w []int
	for _, s := range scs {
		w = append(w, s.Weight)
	}
	return w
}

var uuidV4 = regexp.MustCompile(`^[0-9a-f]{8}-[0-9a-f]{4}-4[0-9a-f]{3}-[89ab][0-9a-f]{3}-[0-9a-f]{12}$`)

// c15CheckFuncs judges the headers rendered from the randomisation functions against their documentation.
func c15CheckFuncs(hv func(string) string, fixed map[string]string, seenUUID map[string]bool) string {
	intIn := func(k string, lo, hi int64) string {
		v, err := strconv.ParseInt(hv(k), 10, 64)
		if err != nil || v < lo || v > hi {
			return fmt.Sprintf("%s:%s arrived as %q, want an integer in %d..%d", strings.ToLower(k), k, hv(k), lo, hi)
		}
		return ""
	}
	strOf := func(k string, n int, letters string) string {
		v := hv(k)
		ok := len(v) == n
		for _, c := range v {
			ok = ok && strings.ContainsRune(letters, c)
		}
		if !ok {
			return fmt.Sprintf("%s:%s arrived as %q, want %d characters out of %q", strings.ToLower(k), k, v, n, letters)
		}
		return ""
	}
	for _, k := range []string{"X-Uuid", "X-Pre-Uuid"} {
		v := hv(k)
		if !uuidV4.MatchString(v) {
			return fmt.Sprintf("%s:%s arrived as %q, want a uuid v4", strings.ToLower(k), k, v)
		}
		if seenUUID[v] {
			return fmt.Sprintf("%s-repeated:%s arrived as %q, which an earlier request of this run carried already", strings.ToLower(k), k, v)
		}
		seenUUID[v] = true
	}
	for _, c := range []string{intIn("X-Rand-Int", 100, 200), intIn("X-Rand-Int1", 0, 7), intIn("X-Rand-Int0", 0, 9), intIn("X-Rand-Src", 300, 500), intIn("X-Pre-Int", 10, 20), intIn("X-Glob-Fixed", 1000, 2000),
		strOf("X-Rand-Str", 5, "abc"), strOf("X-Pre-Str", 4, "xy"), strOf("X-Glob-Pick", 6, "qrs")} {
		if c != "" {
			return c
		}
	}
	if hv("X-Glob-Host") != "glob.example" {
		return fmt.Sprintf("x-glob-host:X-Glob-Host arrived as %q, want the source's value glob.example", hv("X-Glob-Host"))
	}
	for _, k := range []string{"X-Glob-Fixed", "X-Glob-Pick"} {
		if old, ok := fixed[k]; ok && old != hv(k) {
			return fmt.Sprintf("%s-changed:%s arrived as %q, an earlier request of this run carried %q", strings.ToLower(k), k, hv(k), old)
		}
		fixed[k] = hv(k)
	}
	return ""
}
