package props

import (
	"fmt"
	"runtime"
	"strings"

	"verifsim/simnet"

	"verifsim/simrt"
)

// ---- C19: no response from the target can abort or crash the run (HTTP guns; scenario and gRPC guns are added with their harnesses) ----

func init() {
	Register(&Prop{
		ID:    "C19",
		Run:   runC19,
		Level: "fault_enumeration",
		Rule: "a run = the C10 pool (real provider, http or connect gun, engine, 1-6 instances, 1-8 entries x 1-2 passes) against the byte-level scripted peer with a fault drawn per entry from the enumerated list {status 200-599/999, Connection: close, close or reset before the response / inside the headers / inside the body, garbage, bad chunking, bad HTTP version, negative Content-Length, silence until the client's timeout, 100-continue, HTTP/1.0 close-delimited body, huge body, huge headers, stall} " +
			"and connection faults {refused connects, connects beyond the dial timeout, partitions shorter and longer than the client timeouts, and for the connect gun a proxy that answers every third CONNECT with 502 / extra bytes after the 200 / nothing before closing / non-HTTP bytes / silence}; " +
			"further modes: the http/scenario gun over plain HTTP/1.1, over TLS and as http2/scenario over HTTP/2 against arbitrary statuses, header values and bodies for its extractors and assertions; the grpc and grpc/scenario guns against every status code, slow handlers and resets; the http2 gun against HTTP/2, failing TLS handshakes and the documented fatal no-HTTP/2 target; oracle: Engine.Run returns nil, one sample per request, every entry of every pass was attempted (the instance went on with the next ammo), no panic reached the engine; non-trivial = at least one fault fired; distinct = distinct (fault kinds of the run) x schedule-trace hash",
		Components: map[string]string{
			"components/guns/http (BaseGun, http, http2 and connect guns)": "real", "components/guns/http_scenario (http/scenario, http2/scenario)": "real", "components/guns/grpc, grpc/scenario": "real", "components/providers/http": "real", "core/engine (instance recover path)": "real", "net/http client transport": "real (stdlib, un-yielded)",
			"target": "byte-level scripted peer in the bubble", "network": "simulated (simnet)", "aggregator": "recording stub", "clock": "simulated",
		},
	})
}

func runC19(r *R) {
	if (r.Mode == "" && r.W.Draw(8) == 0) || r.Mode == "http2" {
		c19HTTP2(r)
		return
	}
	if (r.Mode == "" && r.W.Draw(5) == 0) || r.Mode == "grpc" {
		c19GRPC(r)
		return
	}
	if (r.Mode == "" && r.W.Draw(3) == 0) || r.Mode == "scenario" {
		c19Scenario(r)
		return
	}
	sp := genHTTPFaultSpec(r, true)
	r.Sample(sp.describe())
	out := runHTTPFaults(r, sp)
	res := out.Res
	if len(out.Runaway) > 0 {
		r.Fail("redirect-loop-followed-without-bound", "the target answers entries %v with a redirect to the same URI; with redirect=%v the client followed it for more than 64 hops per shot (a shot inside such a loop never ends: no sample, the instance never takes its next ammo)", out.Runaway, sp.FollowRedirects)
		return
	}
	kinds := map[string]bool{}
	for _, b := range sp.Behaviours {
		kinds[b.Kind] = true
		r.Note("peer:" + b.Kind)
	}
	if len(kinds) > 1 || !kinds["status"] || sp.ConnFaults != "" {
		r.NonTrivial()
	}
	var ks []string
	for _, b := range sp.Behaviours {
		ks = append(ks, b.Kind)
	}
	ctx := "peer behaviours " + strings.Join(ks, ",") + "; connection faults " + sp.ConnFaults
	switch res.Sim.Class {
	case simrt.Crash:
		r.Fail("CRASH/"+frameSig(res.Sim.Stack), "%s\n%s\n%s", res.Sim.Detail, res.Sim.Stack, ctx)
		return
	case simrt.Hang, simrt.Livelock, simrt.Spin:
		blocked := "run returned"
		if !res.RunDone {
			blocked = "Engine.Run has not returned"
		}
		r.Fail("run-never-ends", "%s; %d of %d samples; %s; %s", res.Sim.Detail, len(res.Samples), out.Fired, blocked, ctx)
		return
	}
	if res.DecodeErr != nil {
		r.Fail("config-rejected", "the pool configuration was rejected: %v", res.DecodeErr)
		return
	}
	if res.RunErr != nil {
		cls := "run-aborted"
		if strings.Contains(res.RunErr.Error(), "shoot panic") {
			cls = "shoot-panic"
		}
		r.Fail(cls, "Engine.Run returned %q after %d of %d samples; %s", res.RunErr, len(res.Samples), out.Fired, ctx)
		return
	}
	if len(res.Samples) != out.Fired {
		r.Fail("sample-count", "%d requests were to be fired (%d entries x %d passes), %d samples were reported; %s", out.Fired, sp.Entries, sp.Passes, len(res.Samples), ctx)
	}
	if sp.ConnFaults == "" && !sp.KeepAlive && !sp.TLSHang {
		// one connection per request: every attempt reaches the peer
		for i, arr := range out.PerEnt {
			if len(arr) < sp.Passes {
				r.Fail("entry-not-attempted", "entry %d reached the peer %d times in %d passes: the instances did not go on with the next ammo; %s", i, len(arr), sp.Passes, ctx)
				break
			}
		}
	}
}

// ---- scenario gun against arbitrary response contents ----

var c19Bodies = []string{"", "{}", "{\"a\": {\"b\": [1, 2]}, \"items\": [1, 2, 3], \"token\": \"t\"}", "{\"a\": 5}", "{\"a\": {\"b\": []}}", "[1, 2", "null", "<html><head><title>T</title></head><body><div class='data'>d1</div><div class='data'>d2</div></body></html>",
	"<html><body><p>no data here</p></body></html>", "<html><div class='data'>", "\x00\x01\x02\xff\xfe binary", "plain text", "<?xml version=\"1.0\"?><root><title>x</title></root>"}
var c19HdrVals = []string{"", "a", "ab", "abc", "abcde", "Basic Ym9zY236Ym9zY28=", "0123456789"}

func c19ScenarioYAML(w *simrt.Stream) string {
	substr := []string{"substr(5)", "substr(2,4)", "substr(0)", "substr(7, 3)", "substr(-3)", "substr(1,-1)", "substr(3,100)"}
	var b strings.Builder
	b.WriteString("calls: [ ]\nrequests:\n")
	fmt.Fprintf(&b, "  - name: hdr\n    method: GET\n    uri: /hdr\n    postprocessors:\n      - type: var/header\n        mapping:\n          a: X-Val|%s\n          b: X-Val|%s|upper\n          c: X-Val|lower|replace(a,b)\n          d: Missing-Header|%s\n", substr[w.Draw(len(substr))], substr[w.Draw(len(substr))], substr[w.Draw(len(substr))])
	b.WriteString("  - name: xp\n    method: GET\n    uri: '/xp?v={{.request.hdr.postprocessor.a}}'\n    postprocessors:\n      - type: var/xpath\n        mapping:\n          d: \"//div[@class='data']\"\n          t: //title\n")
	b.WriteString("  - name: jp\n    method: POST\n    uri: /jp\n    body: '{\"d\": \"{{.request.xp.postprocessor.d}}\"}'\n    postprocessors:\n      - type: var/jsonpath\n        mapping:\n          v: $.a.b[0]\n          items: $.items\n          tok: $.token\n")
	b.WriteString("  - name: as\n    method: GET\n    uri: '/as?i={{.request.jp.postprocessor.v}}'\n    postprocessors:\n      - type: assert/response\n        headers:\n          X-Val: a\n        body: [\"a\"]\n        size:\n          val: 5\n          op: '>'\n")
	b.WriteString("scenarios:\n  - name: sc\n    requests: [hdr, xp, jp, as]\n  - name: sc2\n    requests: [jp, xp(2), hdr]\n")
	return b.String()
}

func c19Scenario(r *R) {
	w, f := r.W, r.F
	yaml := c19ScenarioYAML(w)
	inst := 1 + w.Draw(3)
	invocations := 2 + w.Draw(8)
	type ans struct {
		status int
		hdr    string
		hasHdr bool
		body   string
		cut    string // "", short-body (fewer bytes than Content-Length, then close), chunked-cut (no final chunk), abort (close without a response)
	}
	var plan []ans
	for i := 0; i < invocations*5; i++ {
		plan = append(plan, ans{status: []int{200, 200, 200, 204, 304, 404, 500, 201}[f.Draw(8)], hdr: c19HdrVals[f.Draw(len(c19HdrVals))], hasHdr: f.Draw(4) != 0, body: c19Bodies[f.Draw(len(c19Bodies))],
			cut: []string{"", "", "", "", "", "short-body", "chunked-cut", "abort"}[f.Draw(8)]})
	}
	// the same scenario over plain HTTP/1.1, over TLS (ssl: true), or shot by the http2/scenario gun at an HTTP/2 target
	transport := []string{"plain", "plain", "tls", "h2"}[w.Draw(4)]
	r.Sample(map[string]any{"mode": "scenario", "instances": inst, "invocations": invocations, "description": yaml, "transport": transport})
	r.NonTrivial()
	r.Note("scenario-transport/" + transport)
	target := "10.0.0.11:8080"
	gun := map[string]interface{}{"type": "http/scenario", "target": target}
	switch transport {
	case "tls":
		gun["ssl"] = true
	case "h2":
		gun["type"] = "http2/scenario"
	}
	// gun diagnostics (one run in three): whatever the target answers - or does not answer - the trace dump, the timings
	// and the answer log must cope with it
	if w.Draw(3) == 0 {
		gun["httptrace"] = map[string]interface{}{"trace": w.Bool(), "dump": w.Draw(3) != 0}
		if fl := []string{"", "all", "warning", "error"}[w.Draw(4)]; fl != "" {
			gun["answlog"] = map[string]interface{}{"enabled": true, "path": "/dev/null", "filter": fl}
		}
		r.Note("gun-diagnostics-on")
	}
	var tgt *httpTarget
	var cutMu simrt.HMutex
	cuts := map[string]int{}
	res := runHTTPPool(r, httpPoolSpec{
		Ammo:      map[string]interface{}{"type": "http/scenario", "file": "/ammo/scenario.yaml", "limit": invocations},
		Gun:       gun,
		Instances: inst, Tokens: invocations + 2,
		Files: map[string][]byte{"/ammo/scenario.yaml": []byte(yaml)},
	}, nil, func(nw *simnet.Net) {
		tgt = startHTTPTargetTLS(nw, target, transport != "plain", tlsOpts{H2: transport == "h2"}, func(n int, s *seenReq) respScript {
			a := plan[n%len(plan)]
			rs := respScript{Status: a.status, Hdr: map[string]string{}}
			if a.hasHdr {
				rs.Hdr["X-Val"] = a.hdr
			}
			if a.status != 204 && a.status != 304 {
				rs.Body = []byte(a.body)
			}
			cut := a.cut
			if cut == "abort" && s.Method == "GET" {
				// (net/http re-sends an idempotent request when a kept-alive connection is closed without an answer;
				// the answer to a GET is cut inside the body instead)
				cut = "short-body"
			}
			if cut != "" && transport != "h2" && a.status != 204 && a.status != 304 {
				var raw strings.Builder
				fmt.Fprintf(&raw, "HTTP/1.1 %d Status\r\n", a.status)
				if a.hasHdr {
					fmt.Fprintf(&raw, "X-Val: %s\r\n", a.hdr)
				}
				body := strings.ToValidUTF8(a.body, "?")
				switch cut {
				case "short-body":
					announced := len(body) + 50
					if n%4 == 3 {
						// a length the header parser accepts and no machine can hold
						announced = 1 << 62
						cutMu.Lock()
						cuts["absurd-content-length"]++
						cutMu.Unlock()
					}
					fmt.Fprintf(&raw, "Content-Length: %d\r\n\r\n%s", announced, body)
				case "chunked-cut":
					fmt.Fprintf(&raw, "Transfer-Encoding: chunked\r\n\r\n%x\r\n%s\r\n", len(body)+1, body+"~")
				}
				rs.Abort = true
				if cut != "abort" {
					rs.Raw = []byte(raw.String())
				}
				cutMu.Lock()
				cuts[cut]++
				cutMu.Unlock()
			}
			return rs
		})
	})
	if transport == "h2" {
		runtime.GC() // (see c19HTTP2: pooled channels of x/net/http2 must not cross bubbles)
		runtime.GC()
	}
	for _, a := range plan {
		r.Note(fmt.Sprintf("scenario-answer/status-%d", a.status))
	}
	for k, n := range cuts {
		for i := 0; i < n; i++ {
			r.Fault("target:"+k, true)
		}
	}
	switch res.Sim.Class {
	case simrt.Crash:
		r.Fail("CRASH/scenario/"+frameSig(res.Sim.Stack), "%s\n%s", res.Sim.Detail, res.Sim.Stack)
		return
	case simrt.Hang, simrt.Livelock, simrt.Spin:
		r.Fail("run-never-ends/scenario", "%s (run returned=%v, %d samples)", res.Sim.Detail, res.RunDone, len(res.Samples))
		return
	}
	if res.DecodeErr != nil {
		r.Fail("description-rejected", "the valid scenario description was rejected: %v\n%s", res.DecodeErr, yaml)
		return
	}
	if res.RunErr != nil {
		cls := "run-aborted/scenario"
		if strings.Contains(res.RunErr.Error(), "shoot panic") {
			cls = "shoot-panic/scenario"
		}
		r.Fail(cls, "Engine.Run returned %q after %d samples; the target's answers: %+v", res.RunErr, len(res.Samples), plan[:min(len(plan), len(tgt.Seen())+1)])
		return
	}
	seen := tgt.Seen()
	// one sample per executed step; a step that fails before its request is sent (template / preprocessor error)
	// is reported too: at most one such step per invocation
	// (a request the target's HTTP parser rejects with 400 - e.g. an unrendered '<no value>' in the URI - never
	// reaches the handler's log, so the log is a lower bound; 4 steps per invocation is the upper bound)
	if len(res.Samples) < len(seen) || len(res.Samples) > 4*invocations {
		var tags, uris []string
		for _, sm := range res.Samples {
			tags = append(tags, fmt.Sprintf("%s/%d/%s", sm.Tags, sm.Proto, clip(sm.Err)))
		}
		for _, sq := range seen {
			uris = append(uris, sq.Method+" "+sq.URI)
		}
		r.Fail("sample-count/scenario", "%d step requests reached the target in %d invocations, %d samples were reported; samples %v; requests %v", len(seen), invocations, len(res.Samples), tags, uris)
	}
	// every invocation was attempted (the instances went on with the next ammo): the first step of an invocation always
	// yields a sample, tagged sc.hdr or sc2.jp (with |__EMPTY__ appended when it failed); no other step carries these tags
	starts := 0
	for _, sm := range res.Samples {
		t := strings.TrimSuffix(sm.Tags, "|__EMPTY__")
		if t == "sc.hdr" || t == "sc2.jp" {
			starts++
		}
	}
	if starts != invocations {
		var uris, tags []string
		for _, sq := range seen {
			uris = append(uris, sq.Method+" "+sq.URI)
		}
		for _, sm := range res.Samples {
			tags = append(tags, fmt.Sprintf("%s/%d/%s", sm.Tags, sm.Proto, clip(sm.Err)))
		}
		r.Fail("invocations-not-attempted/scenario", "%d scenario invocations were to be shot by %d instance(s), %d first-step samples were reported; requests %v; samples %v", invocations, inst, starts, uris, tags)
	}
}

// ---- gRPC guns against every status code, handlers slower than the timeout and connections reset in flight ----

func c19GRPC(r *R) {
	p := genGRPCPlan(r, true)
	r.Sample(map[string]any{"mode": "grpc", "scenario": p.Scenario, "entries": p.Entries, "passes": p.Passes, "instances": p.Inst, "codes": fmt.Sprint(p.Codes), "slow": fmt.Sprint(p.Slow), "reset": fmt.Sprint(p.Reset), "timeout": p.Timeout.String(), "assertions": fmt.Sprint(p.Assert), "refuse_clients_from": p.RefuseFrom})
	r.NonTrivial()
	out := runGRPCPlan(r, p)
	res := out.Res
	switch res.Sim.Class {
	case simrt.Crash:
		r.Fail("CRASH/grpc/"+frameSig(res.Sim.Stack), "%s\n%s", res.Sim.Detail, res.Sim.Stack)
		return
	case simrt.Hang, simrt.Livelock, simrt.Spin:
		r.Fail("run-never-ends/grpc", "%s (run returned=%v, %d of %d samples)", res.Sim.Detail, res.RunDone, len(res.Samples), out.Fired)
		return
	}
	if res.DecodeErr != nil {
		r.Fail("config-rejected", "the pool configuration was rejected: %v", res.DecodeErr)
		return
	}
	if res.RunErr != nil {
		cls := "run-aborted/grpc"
		if strings.Contains(res.RunErr.Error(), "shoot panic") {
			cls = "shoot-panic/grpc"
		}
		r.Fail(cls, "Engine.Run returned %q after %d of %d samples (server statuses %v, slow %v, resets %v)", res.RunErr, len(res.Samples), out.Fired, p.Codes, p.Slow, p.Reset)
		return
	}
	if !p.Scenario && len(res.Samples) != out.Fired {
		r.Fail("sample-count/grpc", "%d calls were to be made (%d entries x %d passes), %d samples were reported (server statuses %v, clients refused from #%d)", out.Fired, p.Entries, p.Passes, len(res.Samples), p.Codes, p.RefuseFrom)
	} else if p.Scenario && !out.StopCertain {
		// (a reset makes statuses, hence assertions, uncertain: every invocation makes its first call at least)
		if len(res.Samples) < p.Passes || len(res.Samples) > p.Entries*p.Passes {
			r.Fail("sample-count/grpc", "%d invocations of %d calls, %d samples were reported (server statuses %v, assertions %v)", p.Passes, p.Entries, len(res.Samples), p.Codes, p.Assert)
		}
	} else if len(res.Samples) != out.Fired {
		r.Fail("sample-count/grpc", "%d calls were to be made (%d entries x %d passes; assertions %v end an invocation after call %d), %d samples were reported (server statuses %v)", out.Fired, p.Entries, p.Passes, p.Assert, out.Stop, len(res.Samples), p.Codes)
	}
}

// ---- http2 gun: a target that speaks HTTP/2 over TLS (any status, failing handshakes) must not stop the run; only the
// documented fatal condition - a target without HTTP/2 - may ----

func c19HTTP2(r *R) {
	w, f := r.W, r.F
	variant := []string{"h2", "h2", "h2-handshake-alerts", "no-h2"}[w.Draw(4)]
	n := 2 + w.Draw(8)
	inst := 1 + w.Draw(3)
	var file strings.Builder
	statuses := make([]int, n)
	for i := 0; i < n; i++ {
		fmt.Fprintf(&file, "/p%d?n=%d t%d\n", i, i, i)
		statuses[i] = []int{200, 200, 204, 301, 404, 500, 503}[f.Draw(7)]
	}
	failEvery := 2 + f.Draw(3)
	target := "10.0.0.12:8443"
	r.Sample(map[string]any{"mode": "http2", "variant": variant, "entries": n, "instances": inst, "statuses": fmt.Sprint(statuses), "fail_handshake_every": failEvery})
	r.NonTrivial()
	r.Note("http2/" + variant)
	opts := tlsOpts{H2: variant != "no-h2"}
	if variant == "h2-handshake-alerts" {
		opts.FailHandshake = func(k int) bool { return k%failEvery == 0 }
	}
	var tgt *httpTarget
	res := runHTTPPool(r, httpPoolSpec{
		Ammo:      map[string]interface{}{"type": "uri", "file": "/ammo/ammo.txt", "passes": 1},
		Gun:       map[string]interface{}{"type": "http2", "target": target},
		Instances: inst, Tokens: n + 2,
		Files: map[string][]byte{"/ammo/ammo.txt": []byte(file.String())},
	}, nil, func(nw *simnet.Net) {
		tgt = startHTTPTargetTLS(nw, target, true, opts, func(k int, s *seenReq) respScript {
			i := markerOf(s.URI)
			st := 200
			if i >= 0 && i < n {
				st = statuses[i]
			}
			return respScript{Status: st, Body: []byte("ok")}
		})
	})
	// x/net/http2 keeps channels in package-level sync.Pools; a channel made inside this run's bubble must not be
	// handed to the next run's bubble (the runtime treats that as fatal): two collections empty the pools
	runtime.GC()
	runtime.GC()
	switch res.Sim.Class {
	case simrt.Crash:
		r.Fail("CRASH/http2/"+frameSig(res.Sim.Stack), "%s\n%s", res.Sim.Detail, res.Sim.Stack)
		return
	case simrt.Hang, simrt.Livelock, simrt.Spin:
		r.Fail("run-never-ends/http2/"+variant, "%s (run returned=%v, %d samples)", res.Sim.Detail, res.RunDone, len(res.Samples))
		return
	}
	if res.DecodeErr != nil {
		r.Fail("config-rejected/http2", "the pool configuration was rejected: %v", res.DecodeErr)
		return
	}
	if variant == "no-h2" {
		// the documented fatal condition: the run may be stopped (with the documented message), nothing else is required
		if res.RunErr != nil && !strings.Contains(res.RunErr.Error(), "HTTP/2") {
			r.Fail("run-aborted/http2/no-h2-wrong-cause", "against a target without HTTP/2 Engine.Run returned %q: not the documented cause", res.RunErr)
		}
		return
	}
	if res.RunErr != nil {
		r.Fail("run-aborted/http2/"+variant, "the target speaks HTTP/2 (%s), yet Engine.Run returned %q after %d of %d samples", variant, res.RunErr, len(res.Samples), n)
		return
	}
	if len(res.Samples) != n {
		r.Fail("sample-count/http2/"+variant, "%d requests were to be fired, %d samples were reported", n, len(res.Samples))
	}
	if variant == "h2" {
		seen := tgt.Seen()
		if len(seen) != n {
			r.Fail("request-count/http2", "%d requests reached the HTTP/2 target, want %d", len(seen), n)
		}
		for _, s := range res.Samples {
			i := -1
			fmt.Sscanf(s.Tags, "t%d", &i)
			if i >= 0 && i < n && s.Proto != statuses[i] {
				r.Fail("proto-code/http2", "entry %d was answered with %d over HTTP/2, its sample has proto code %d (net %d, err %q)", i, statuses[i], s.Proto, s.Net, clip(s.Err))
				break
			}
		}
	}
}
