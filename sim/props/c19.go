package props

import (
	"strings"

	"verifsim/simrt"
)

// ---- C19: no response from the target can abort or crash the run (HTTP guns; scenario and gRPC guns are added with their harnesses) ----

func init() {
	Register(&Prop{
		ID:    "C19",
		Run:   runC19,
		Level: "fault_enumeration",
		Rule: "a run = the C10 pool (real provider, http or connect gun, engine, 1-6 instances, 1-8 entries x 1-2 passes) against the byte-level scripted peer with a fault drawn per entry from the enumerated list {status 200-599/999, Connection: close, close or reset before the response / inside the headers / inside the body, garbage, bad chunking, bad HTTP version, negative Content-Length, silence until the client's timeout, 100-continue, HTTP/1.0 close-delimited body, huge body, huge headers, stall} " +
			"and connection faults {refused connects, connects beyond the dial timeout}; oracle: Engine.Run returns nil, one sample per request, every entry of every pass was attempted (the instance went on with the next ammo), no panic reached the engine; non-trivial = at least one fault fired; distinct = distinct (fault kinds of the run) x schedule-trace hash",
		Components: map[string]string{
			"components/guns/http (BaseGun, http and connect guns)": "real", "components/providers/http": "real", "core/engine (instance recover path)": "real", "net/http client transport": "real (stdlib, un-yielded)",
			"target": "byte-level scripted peer in the bubble", "network": "simulated (simnet)", "aggregator": "recording stub", "clock": "simulated",
		},
	})
}

func runC19(r *R) {
	sp := genHTTPFaultSpec(r, true)
	r.Sample(sp.describe())
	out := runHTTPFaults(r, sp)
	res := out.Res
	kinds := map[string]bool{}
	for _, b := range sp.Behaviours {
		kinds[b.Kind] = true
		r.Note("peer:" + b.Kind)
	}
	if len(kinds) > 1 || !kinds["status"] || sp.ConnFaults != "" {
		r.NonTrivial()
	}
	var ks []string
	for _, b := range sp.Behaviours {
		ks = append(ks, b.Kind)
	}
	ctx := "peer behaviours " + strings.Join(ks, ",") + "; connection faults " + sp.ConnFaults
	switch res.Sim.Class {
	case simrt.Crash:
		r.Fail("CRASH/"+frameSig(res.Sim.Stack), "%s\n%s\n%s", res.Sim.Detail, res.Sim.Stack, ctx)
		return
	case simrt.Hang, simrt.Livelock, simrt.Spin:
		blocked := "run returned"
		if !res.RunDone {
			blocked = "Engine.Run has not returned"
		}
		r.Fail("run-never-ends", "%s; %d of %d samples; %s; %s", res.Sim.Detail, len(res.Samples), out.Fired, blocked, ctx)
		return
	}
	if res.DecodeErr != nil {
		r.Fail("config-rejected", "the pool configuration was rejected: %v", res.DecodeErr)
		return
	}
	if res.RunErr != nil {
		cls := "run-aborted"
		if strings.Contains(res.RunErr.Error(), "shoot panic") {
			cls = "shoot-panic"
		}
		r.Fail(cls, "Engine.Run returned %q after %d of %d samples; %s", res.RunErr, len(res.Samples), out.Fired, ctx)
		return
	}
	if len(res.Samples) != out.Fired {
		r.Fail("sample-count", "%d requests were to be fired (%d entries x %d passes), %d samples were reported; %s", out.Fired, sp.Entries, sp.Passes, len(res.Samples), ctx)
	}
	if sp.ConnFaults == "" && !sp.KeepAlive {
		// one connection per request: every attempt reaches the peer
		for i, arr := range out.PerEnt {
			if len(arr) < sp.Passes {
				r.Fail("entry-not-attempted", "entry %d reached the peer %d times in %d passes: the instances did not go on with the next ammo; %s", i, len(arr), sp.Passes, ctx)
				break
			}
		}
	}
}
