package props

import (
	"encoding/json"
	"fmt"
	"strings"
	"time"

	"verifsim/simnet"
	"verifsim/simrt"
)

// ---- C20: gRPC wire fidelity ----

func init() {
	Register(&Prop{
		ID:    "C20",
		Run:   runC20,
		Level: "exploration",
		Rule: "a run = a grpc/json ammo file (1-8 entries over the example service's Hello / Auth / List / Order methods with drawn field combinations and metadata maps carrying a per-entry marker, mixed with unknown methods and payloads that do not fit the input type) or a gRPC scenario description (calls with templated payload and metadata fed from a [next] data-source row) " +
			"fired by the real grpc or grpc/scenario gun (shared client on/off, timeout option, tls option on/off against the same server behind TLS, 1-5 instances) through the real engine and grpc-go at a real grpc-go server with reflection inside the bubble over the simulated network; a server-side interceptor logs method, message fields, incoming metadata and deadline; " +
			"oracle: per good entry one call to exactly the named method with the entry's fields and metadata (never another entry's), deadline within the configured timeout, bad entries give a failed sample and no call, calls == good entries x passes; non-trivial = at least two instances or a bad entry mixed with good ones; distinct = distinct schedule-trace hash",
		Components: map[string]string{
			"components/guns/grpc (core, shared deps)": "real", "components/guns/grpc/scenario": "real", "components/providers/grpc/grpcjson": "real", "components/providers/scenario/grpc": "real", "core/engine": "real",
			"grpc-go client and server, reflection, protoreflect": "real (third party, un-yielded)", "target": "real grpc-go server in the bubble (example service API, scripted)", "network": "simulated (simnet)", "disk": "simulated (simfs)", "aggregator": "recording stub", "clock": "simulated",
		},
	})
}

type c20Entry struct {
	Tag     string
	Call    string
	Payload map[string]interface{}
	MD      map[string]string
	Good    bool
	BadKind string
	Fields  string // what the server must see
	Method  string
}

func c20GenEntry(w *simrt.Stream, i int) c20Entry {
	e := c20Entry{Tag: fmt.Sprintf("t%d", i), Good: true, MD: map[string]string{"marker": fmt.Sprintf("m%d", i)}}
	name := fmt.Sprintf("n%d", i)
	if w.Draw(5) == 0 {
		name = fmt.Sprintf("n%d юникод \"q\"", i)
	}
	uid := int64([]int{0, 1, 42, 1 << 40}[w.Draw(4)])
	item := int64([]int{0, 7, 99999}[w.Draw(3)])
	// proto3 JSON: a 64-bit integer may be written as a number or as a string, a field by its proto name or its
	// lowerCamelCase JSON name
	// (and as a number with a fraction or an exponent, as long as its value is integral: 42.0, 4.2e1)
	num := func(v int64) interface{} {
		switch w.Draw(6) {
		case 0:
			return fmt.Sprint(v)
		case 1:
			return json.RawMessage(fmt.Sprintf("%d.0", v))
		case 2:
			if v != 0 && v%10 == 0 {
				return json.RawMessage(fmt.Sprintf("%de1", v/10))
			}
			return json.RawMessage(fmt.Sprintf("%d.00e0", v))
		}
		return v
	}
	key := func(protoName, jsonName string) string {
		if w.Draw(4) == 0 {
			return jsonName
		}
		return protoName
	}
	switch w.Draw(5) {
	case 4:
		e.Method = "Stats"
		e.Payload = map[string]interface{}{}
		e.Fields = "stats"
	case 0:
		e.Method = "Hello"
		e.Payload = map[string]interface{}{"name": name}
		e.Fields = fmt.Sprintf("name=%q", name)
	case 1:
		e.Method = "Auth"
		e.Payload = map[string]interface{}{"login": name}
		pass := ""
		if w.Draw(2) == 0 {
			pass = "secret"
			e.Payload["pass"] = pass
		}
		e.Fields = fmt.Sprintf("login=%q pass=%q", name, pass)
	case 2:
		e.Method = "List"
		e.Payload = map[string]interface{}{"token": name}
		if uid != 0 || w.Draw(2) == 0 {
			e.Payload[key("user_id", "userId")] = num(uid)
		}
		e.Fields = fmt.Sprintf("token=%q user_id=%d", name, uid)
	default:
		e.Method = "Order"
		e.Payload = map[string]interface{}{"token": name, key("user_id", "userId"): num(uid), key("item_id", "itemId"): num(item)}
		e.Fields = fmt.Sprintf("token=%q user_id=%d item_id=%d", name, uid, item)
	}
	e.Call = "target.TargetService." + e.Method
	for k := 0; k < w.Draw(3); k++ {
		key := []string{"x-req", "X-Upper", "authorization", "k1", "trace-bin"}[w.Draw(5)]
		e.MD[key] = fmt.Sprintf("v%d-%d", i, k)
		if key == "trace-bin" {
			// a binary-valued key: grpc carries the value base64-coded on the wire and hands the server the bytes as
			// written, whatever they look like (these look like base64 or hex themselves)
			e.MD[key] = fmt.Sprintf("%04d", i) + []string{"deadbeef", "QUJD", "0a1b2c3d", "aGVsbG8="}[w.Draw(4)]
		}
	}
	switch w.Draw(6) {
	case 0:
		e.Good, e.BadKind = false, "unknown-method"
		// (a few names only, so that the same unknown method often comes twice in a row on one instance)
		e.Call = "target.TargetService." + []string{"Nope", "Helo", fmt.Sprintf("Nope%d", i)}[w.Draw(3)]
		if w.Draw(4) == 0 {
			// grpcurl's spelling of an existing method: the documented form of `call` is the dotted fully qualified name
			e.Call = []string{"target.TargetService/Hello", "/target.TargetService/Hello", "target.TargetService/Stats"}[w.Draw(3)]
		}
	case 1:
		e.Good, e.BadKind = false, "ill-typed-payload"
		switch e.Method {
		case "Stats":
			e.Payload = map[string]interface{}{"anything": []interface{}{1}}
		case "Hello":
			e.Payload = map[string]interface{}{"name": map[string]interface{}{"nested": 1}}
		case "Auth":
			e.Payload = map[string]interface{}{"login": []interface{}{1, 2}}
		default:
			e.Payload = map[string]interface{}{"token": name, "user_id": "not-a-number"}
		}
	case 2:
		if w.Draw(2) == 0 {
			e.Good, e.BadKind = false, "unknown-field"
			e.Payload["no_such_field"] = 1
		}
	}
	return e
}

func runC20(r *R) {
	w := r.W
	if (r.Mode == "" && w.Draw(4) == 0) || r.Mode == "scenario" {
		c20Scenario(r)
		return
	}
	n := 1 + w.Draw(8)
	var ents []c20Entry
	var file strings.Builder
	good, bad := 0, 0
	for i := 0; i < n; i++ {
		e := c20GenEntry(w, i)
		ents = append(ents, e)
		jb, _ := json.Marshal(map[string]interface{}{"tag": e.Tag, "call": e.Call, "metadata": e.MD, "payload": e.Payload})
		file.Write(jb)
		file.WriteString("\n")
		if e.Good {
			good++
		} else {
			bad++
		}
	}
	// one run in five: `continueonerror` is set and a line that is not a JSON document stands between the entries (once
	// or twice). Such a line is nobody's call: nothing may reach the server for it, the entries around it are sent as ever
	broken := 0
	if w.Draw(5) == 0 {
		lines := strings.SplitAfter(file.String(), "\n")
		lines = lines[:len(lines)-1]
		for k := 1 + w.Draw(2); k > 0; k-- {
			at := 1 + w.Draw(len(lines)) // (never first: the interesting case is a line that follows decoded entries)
			bad := []string{"{\"tag\": \"broken\", \"call\": \n", "not json at all\n", "{\"tag\": \"broken\", \"call\": \"target.TargetService.Hello\", \"payload\": {\"name\": }}\n"}[w.Draw(3)]
			lines = append(lines[:at], append([]string{bad}, lines[at:]...)...)
			broken++
		}
		file.Reset()
		file.WriteString(strings.Join(lines, ""))
		r.Note("undecodable-lines-under-continue-on-error")
	}
	passes := 1 + w.Draw(2)
	inst := 1 + w.Draw(5)
	if broken > 0 && w.Draw(2) == 0 {
		// many passes: the provider's queue (128 items) fills, the provider falls behind the instances and decodes into
		// ammo objects that have been shot and handed back
		passes = 20 + w.Draw(30)
		r.Note("undecodable-lines/many-passes")
	}
	shared := w.Draw(3) == 0
	timeout := []time.Duration{500 * time.Millisecond, 2 * time.Second, 0}[w.Draw(3)]
	lat := []time.Duration{100 * time.Microsecond, 2 * time.Millisecond, 20 * time.Millisecond}[w.Draw(3)]
	target := "10.0.0.20:9090"
	gun := map[string]interface{}{"type": "grpc", "target": target}
	if timeout > 0 {
		gun["timeout"] = timeout.String()
	}
	if shared {
		gun["shared-client"] = map[string]interface{}{"enabled": true, "client-number": 1 + w.Draw(2)}
	}
	useTLS := w.Draw(4) == 0
	if useTLS {
		gun["tls"] = true
		r.Note("transport:tls")
	}
	// diagnostics and dial options (one run in four): the answer log with its filters, debug-level logging, an authority
	// and a dial timeout - none of them may change which calls are made, with what content, or how they are reported
	debugLog := false
	if w.Draw(4) == 0 {
		if fl := []string{"", "all", "warning", "error"}[w.Draw(4)]; fl != "" {
			gun["answlog"] = map[string]interface{}{"enabled": true, "path": "/dev/null", "filter": fl}
		}
		debugLog = w.Draw(2) == 0
		do := map[string]interface{}{"timeout": "3s"}
		if !useTLS && w.Draw(2) == 0 {
			do["authority"] = "svc.example"
		}
		gun["dial_options"] = do
		r.Note("gun-diagnostics-on")
	}
	var descr []string
	for _, e := range ents {
		descr = append(descr, fmt.Sprintf("%s %s %s md=%v good=%v", e.Tag, e.Call, e.Fields, e.MD, e.Good))
	}
	r.Sample(map[string]any{"mode": "grpc/json", "entries": descr, "passes": passes, "instances": inst, "shared_client": shared, "timeout": timeout.String(), "latency": lat.String(), "tls": useTLS, "undecodable_lines": broken})
	if inst >= 2 || (bad > 0 && good > 0) {
		r.NonTrivial()
	}
	var tgt *grpcTarget
	res := runHTTPPool(r, httpPoolSpec{
		Ammo:      map[string]interface{}{"type": "grpc/json", "file": "/ammo/grpc.json", "passes": passes, "continueonerror": broken > 0},
		Gun:       gun,
		DebugLog:  debugLog,
		Instances: inst, Tokens: (n+broken)*passes + 2,
		Files: map[string][]byte{"/ammo/grpc.json": []byte(file.String())},
	}, func(nw *simnet.Net) { nw.Latency = lat }, func(nw *simnet.Net) { tgt = startGRPCTargetTLS(nw, target, useTLS, nil) })
	if c20Infra(r, res, "grpc") {
		return
	}
	calls := tgt.Calls()
	if broken > 0 && len(calls) > good*passes {
		var ms []string
		for _, c := range calls {
			ms = append(ms, strings.Join(c.MD["marker"], ","))
		}
		r.Fail("undecodable-line-sent", "the file has %d well-formed good entries and %d lines that are not JSON (continueonerror is set), %d passes: the server received %d calls, want %d (markers of the calls in arrival order: %v): a line that could not be decoded was sent as some other entry's call", good, broken, passes, len(calls), good*passes, ms)
		return
	}
	effTimeout := timeout
	if effTimeout == 0 {
		effTimeout = 15 * time.Second // documented default
	}
	byMarker := map[string][]grpcCall{}
	for _, c := range calls {
		m := strings.Join(c.MD["marker"], ",")
		byMarker[m] = append(byMarker[m], c)
		if c.Deadline < 0 || c.Deadline > effTimeout {
			r.Fail("deadline", "call %s arrived with %v left until its deadline; the configured timeout is %v", c.Method, c.Deadline, effTimeout)
		}
	}
	for i, e := range ents {
		cs := byMarker[e.MD["marker"]]
		if !e.Good {
			if len(cs) > 0 {
				r.Fail("bad-entry-sent/"+e.BadKind, "entry %d (%s, %s) must give a failed sample and no call, but the server received %s %s", i, e.BadKind, e.Call, cs[0].Method, cs[0].Fields)
			}
			continue
		}
		if len(cs) != passes {
			r.Fail("call-count", "entry %d (%s %s) reached the server %d times in %d passes (all calls: %d, good entries %d, bad %d)", i, e.Call, e.Fields, len(cs), passes, len(calls), good, bad)
			continue
		}
		for _, c := range cs {
			if c.Method != "/target.TargetService/"+e.Method {
				r.Fail("method", "entry %d names %s, the server received a call to %s", i, e.Call, c.Method)
			}
			if c.Fields != e.Fields {
				r.Fail("message", "entry %d (%s) has payload %v; the server received %s, want %s", i, e.Call, e.Payload, c.Fields, e.Fields)
			}
			for k, v := range e.MD {
				got := c.MD[strings.ToLower(k)]
				if len(got) != 1 || got[0] != v {
					r.Fail("metadata", "entry %d (%s) has metadata %v; the server received %s: %v (all metadata: %s)", i, e.Call, e.MD, strings.ToLower(k), got, mdKey(c.MD, nil))
				}
			}
			for k, v := range c.MD {
				if isGRPCOwnMD(k) {
					continue
				}
				if _, ok := lowerKeys(e.MD)[k]; !ok {
					r.Fail("metadata-leak", "the call for entry %d (%s, metadata %v) arrived with an extra metadata key %s: %v", i, e.Call, e.MD, k, v)
				}
			}
		}
	}
	if len(calls) != good*passes {
		r.Fail("call-count", "%d calls reached the server, want %d good entries x %d passes", len(calls), good, passes)
	}
	// samples: one per entry and pass; good ones 200, bad ones failed
	byTag := map[string][]recSample{}
	for _, s := range res.Samples {
		byTag[s.Tags] = append(byTag[s.Tags], s)
	}
	if broken > 0 && len(res.Samples) == (n+broken)*passes {
		for i, e := range ents {
			if len(byTag[e.Tag]) > passes {
				r.Fail("undecodable-line-reported-as-another-entry", "the file has %d entries and %d lines that are not JSON (continueonerror is set), %d passes: %d samples carry the tag of entry %d (%s), want %d: a line that could not be decoded was shot with what an earlier entry left in the recycled ammo object", n, broken, passes, len(byTag[e.Tag]), i, e.Tag, passes)
				return
			}
		}
	}
	for i, e := range ents {
		ss := byTag[e.Tag]
		if len(ss) != passes {
			r.Fail("sample-count", "entry %d (%s, good=%v) produced %d samples in %d passes", i, e.Call, e.Good, len(ss), passes)
			continue
		}
		for _, s := range ss {
			if e.Good && s.Proto != 200 {
				r.Fail("good-entry-failed", "entry %d (%s %s) was answered OK by the server but its sample has code %d (a bad entry in the file: %v)", i, e.Call, e.Fields, s.Proto, bad > 0)
			}
			if !e.Good && s.Proto == 200 {
				r.Fail("bad-entry-succeeded/"+e.BadKind, "entry %d (%s, %s) has a sample with code 200", i, e.BadKind, e.Call)
			}
		}
	}
}

func isGRPCOwnMD(k string) bool {
	return k == ":authority" || k == "content-type" || k == "user-agent" || strings.HasPrefix(k, "grpc-")
}

func lowerKeys(m map[string]string) map[string]string {
	o := map[string]string{}
	for k, v := range m {
		o[strings.ToLower(k)] = v
	}
	return o
}

func c20Infra(r *R, res *httpPoolResult, what string) bool {
	switch res.Sim.Class {
	case simrt.Crash:
		r.Fail("CRASH/"+what+"/"+frameSig(res.Sim.Stack), "%s\n%s", res.Sim.Detail, res.Sim.Stack)
		return true
	case simrt.Hang, simrt.Livelock, simrt.Spin:
		r.Fail("run-never-ends/"+what, "%s (run returned=%v, %d samples)", res.Sim.Detail, res.RunDone, len(res.Samples))
		return true
	}
	if res.DecodeErr != nil {
		r.Fail("config-rejected/"+what, "the pool configuration was rejected: %v", res.DecodeErr)
		return true
	}
	if res.RunErr != nil {
		r.Fail("run-error/"+what, "Engine.Run returned %v", res.RunErr)
		return true
	}
	return false
}

// ---- gRPC scenario calls ----

func c20Scenario(r *R) {
	w := r.W
	rows := 1 + w.Draw(4)
	var csv strings.Builder
	csv.WriteString("id,login\n")
	for i := 0; i < rows; i++ {
		fmt.Fprintf(&csv, "%d,user%d\n", 500+i, i)
	}
	var b strings.Builder
	b.WriteString("variable_sources:\n  - name: users\n    type: file/csv\n    file: /ammo/users.csv\n    fields: [id, login]\n    ignore_first_line: true\n    delimiter: ','\n")
	b.WriteString("requests: [ ]\ncalls:\n")
	b.WriteString("  - name: auth\n    tag: auth\n    call: target.TargetService.Auth\n    metadata:\n      marker: 'a-{{.request.auth.preprocessor.user.login}}'\n      static: fixed\n")
	b.WriteString("    payload: '{\"login\": \"{{.request.auth.preprocessor.user.login}}\", \"pass\": \"p{{.request.auth.preprocessor.user.id}}\"}'\n    preprocessors:\n      - type: prepare\n        mapping:\n          user: source.users[next]\n")
	b.WriteString("  - name: list\n    tag: list\n    call: target.TargetService.List\n    metadata:\n      marker: 'l-{{.request.auth.postprocessor.token}}'\n")
	b.WriteString("    payload: '{\"token\": \"{{.request.auth.postprocessor.token}}\", \"user_id\": {{.request.auth.postprocessor.userId}}}'\n")
	b.WriteString("  - name: order\n    tag: order\n    call: target.TargetService.Order\n    metadata:\n      marker: 'o-{{.request.auth.postprocessor.token}}'\n")
	b.WriteString("    payload: '{\"token\": \"{{.request.auth.postprocessor.token}}\", \"user_id\": {{.request.auth.postprocessor.userId}}, \"item_id\": {{.request.order.preprocessor.item}}}'\n    preprocessors:\n      - type: prepare\n        mapping:\n          item: request.list.postprocessor.result[0].itemId\n")
	norder := 1 + w.Draw(3)
	// pauses between the calls: the scenario as a whole may take longer than the timeout of one call
	pause := []int{0, 0, 300, 700}[w.Draw(4)]
	if pause > 0 {
		fmt.Fprintf(&b, "scenarios:\n  - name: sc\n    min_waiting_time: 0\n    requests:\n      - auth(1, %d)\n      - list(1)\n      - sleep(%d)\n      - order(%d, %d)\n", pause, pause, norder, pause)
	} else {
		fmt.Fprintf(&b, "scenarios:\n  - name: sc\n    min_waiting_time: 0\n    requests:\n      - auth(1)\n      - list(1)\n      - order(%d)\n", norder)
	}
	// half of the descriptions have a second scenario made of the same calls (the calls, with their templated metadata
	// and payload, are shared by both)
	twoScenarios := w.Draw(2) == 0
	if twoScenarios {
		if pause > 0 {
			fmt.Fprintf(&b, "  - name: sc2\n    min_waiting_time: 0\n    requests:\n      - auth(1, %d)\n      - list(1)\n      - sleep(%d)\n      - order(%d, %d)\n", pause, pause, norder, pause)
		} else {
			fmt.Fprintf(&b, "  - name: sc2\n    min_waiting_time: 0\n    requests:\n      - auth(1)\n      - list(1)\n      - order(%d)\n", norder)
		}
		r.Note("two-scenarios-sharing-calls")
	}
	invocations := 1 + w.Draw(6)
	inst := 1 + w.Draw(4)
	lat := []time.Duration{100 * time.Microsecond, 3 * time.Millisecond}[w.Draw(2)]
	target := "10.0.0.21:9090"
	useTLS := w.Draw(4) == 0
	if useTLS {
		r.Note("transport:tls")
	}
	r.Sample(map[string]any{"mode": "grpc/scenario", "rows": rows, "orders": norder, "pause_ms": pause, "invocations": invocations, "instances": inst, "latency": lat.String(), "tls": useTLS})
	if inst >= 2 {
		r.NonTrivial()
	}
	var tgt *grpcTarget
	res := runHTTPPool(r, httpPoolSpec{
		Ammo:      map[string]interface{}{"type": "grpc/scenario", "file": "/ammo/scenario.yaml", "limit": invocations},
		Gun:       map[string]interface{}{"type": "grpc/scenario", "target": target, "timeout": "2s", "tls": useTLS},
		Instances: inst, Tokens: invocations + 2,
		Files: map[string][]byte{"/ammo/scenario.yaml": []byte(b.String()), "/ammo/users.csv": []byte(csv.String())},
	}, func(nw *simnet.Net) { nw.Latency = lat }, func(nw *simnet.Net) { tgt = startGRPCTargetTLS(nw, target, useTLS, nil) })
	if c20Infra(r, res, "grpc-scenario") {
		return
	}
	calls := tgt.Calls()
	want := invocations * (2 + norder)
	if len(calls) != want {
		r.Fail("scenario/call-count", "%d calls reached the server, want %d invocations x (auth + list + %d orders) = %d (samples: %d)", len(calls), invocations, norder, want, len(res.Samples))
		return
	}
	logins := map[string]int{}
	for _, c := range calls {
		marker := strings.Join(c.MD["marker"], ",")
		switch c.Method {
		case "/target.TargetService/Auth":
			// login and pass come from one [next] row; the marker is rendered from the same login
			var login, pass string
			fmt.Sscanf(c.Fields, "login=%q pass=%q", &login, &pass)
			logins[login]++
			if marker != "a-"+login {
				r.Fail("scenario/metadata", "Auth call with %s arrived with metadata marker %q, the template renders a-%s (metadata rendered from another instance's variables?)", c.Fields, marker, login)
			}
			if !strings.HasPrefix(login, "user") || pass != "p"+fmt.Sprint(500+atoiSafe(strings.TrimPrefix(login, "user"))) {
				r.Fail("scenario/message", "Auth call arrived as %s: login and pass are not from one row of the data source", c.Fields)
			}
			if got := strings.Join(c.MD["static"], ","); got != "fixed" {
				r.Fail("scenario/metadata", "Auth call arrived with metadata static=%q, the description says 'fixed'", got)
			}
		case "/target.TargetService/List":
			var token string
			var uid int64
			fmt.Sscanf(c.Fields, "token=%q user_id=%d", &token, &uid)
			if !strings.HasPrefix(token, "token-user") || uid != 7 {
				r.Fail("scenario/message", "List call arrived as %s: want the token and userId captured from the Auth response (token-user<k>, 7)", c.Fields)
			}
			if marker != "l-"+token {
				r.Fail("scenario/metadata", "List call with %s arrived with metadata marker %q, the template renders l-%s", c.Fields, marker, token)
			}
		case "/target.TargetService/Order":
			var token string
			var uid, item int64
			fmt.Sscanf(c.Fields, "token=%q user_id=%d item_id=%d", &token, &uid, &item)
			if !strings.HasPrefix(token, "token-user") || uid != 7 || item != 701 {
				r.Fail("scenario/message", "Order call arrived as %s: want token-user<k>, user 7 and the first item of the List response (701)", c.Fields)
			}
			if marker != "o-"+token {
				r.Fail("scenario/metadata", "Order call with %s arrived with metadata marker %q, the template renders o-%s", c.Fields, marker, token)
			}
		default:
			r.Fail("scenario/method", "unexpected call %s", c.Method)
		}
		if c.Deadline < 0 || c.Deadline > 2*time.Second {
			r.Fail("deadline", "call %s arrived with %v left until its deadline; the configured timeout is 2s", c.Method, c.Deadline)
		} else if c.Deadline < time.Second {
			// every call has the configured timeout of its own: with 3 ms of latency at most, a call cannot arrive with
			// less than half of it left
			r.Fail("deadline/shortened", "call %s (#%d of the run) arrived with only %v left until its deadline; every call has a timeout of 2s of its own (pauses of %dms between the calls)", c.Method, c.N, c.Deadline, pause)
		}
	}
	// [next] rows consecutive across instances
	for row := 0; row < rows; row++ {
		wantN := invocations / rows
		if row < invocations%rows {
			wantN++
		}
		if got := logins[fmt.Sprintf("user%d", row)]; got != wantN {
			r.Fail("scenario/next-rows", "%d invocations over %d rows: row %d was used %d times, want %d (%v)", invocations, rows, row, got, wantN, logins)
			break
		}
	}
	if len(res.Samples) != want {
		r.Fail("scenario/sample-count", "%d calls were made, %d samples were reported", want, len(res.Samples))
	}
}

func atoiSafe(s string) int {
	n := 0
	for _, c := range s {
		if c < '0' || c > '9' {
			return -1
		}
		n = n*10 + int(c-'0')
	}
	return n
}
