package props

import (
	"context"
	"fmt"
	"time"

	"github.com/yandex/pandora/core"
	"github.com/yandex/pandora/core/aggregator"
	"github.com/yandex/pandora/core/config"
	"github.com/yandex/pandora/core/engine"
	"github.com/yandex/pandora/core/provider"
	"github.com/yandex/pandora/lib/monitoring"
	"go.uber.org/zap"

	"verifsim/ref"
	"verifsim/simfs"
	"verifsim/simrt"
	"verifsim/stubs"
)

// ---- shared engine-level harness (C03, C04, C12) ----

type schedSpec struct {
	Conf      interface{}   // what goes through config.Decode (map or list of maps)
	Desc      string        // human readable
	Tokens    int           // token count of a fresh instance (drained twin / reference upper bound)
	MinTokens int           // reference lower bound (startup profiles)
	Dur       time.Duration // total duration
	Offs      []time.Duration
	// C04 only: token offsets of the finite parts by the independent reference (verifsim/ref), their total duration,
	// and the duration of an `unlimited` part appended after them (0: none)
	RefOffs   []time.Duration
	FiniteDur time.Duration
	Tail      time.Duration
}

func decodeSchedule(conf interface{}) (core.Schedule, error) {
	ensureImport()
	var c struct {
		S core.Schedule `config:"s"`
	}
	// the plugin hooks consume the "type" key of the map they decode: always decode a copy
	err := config.DecodeAndValidate(map[string]interface{}{"s": deepCopy(conf)}, &c)
	return c.S, err
}

func deepCopy(v interface{}) interface{} {
	switch x := v.(type) {
	case map[string]interface{}:
		m := make(map[string]interface{}, len(x))
		for k, e := range x {
			m[k] = deepCopy(e)
		}
		return m
	case []interface{}:
		l := make([]interface{}, len(x))
		for i, e := range x {
			l[i] = deepCopy(e)
		}
		return l
	}
	return v
}

// twinDrain decodes a fresh instance of the schedule and drains it sequentially.
func twinDrain(conf interface{}) (offs []time.Duration, dur time.Duration, err error) {
	s, err := decodeSchedule(conf)
	if err != nil {
		return nil, 0, err
	}
	t0 := time.Unix(1_600_000_000, 0)
	s.Start(t0)
	for i := 0; i < 100000; i++ {
		tk, ok := s.Next()
		if !ok {
			return offs, tk.Sub(t0), nil
		}
		offs = append(offs, tk.Sub(t0))
	}
	return offs, 0, fmt.Errorf("schedule does not end")
}

var engDurs = []time.Duration{500 * time.Millisecond, time.Second, 1500 * time.Millisecond, 3 * time.Second, 10 * time.Second, time.Minute, 10 * time.Minute}
var engRates = []float64{0, 0.5, 1, 2, 5, 10, 30}

func genLeafConf(w *simrt.Stream, maxTokens int) (map[string]interface{}, string) {
	for {
		switch w.Draw(4) {
		case 0:
			n := 1 + w.Draw(maxTokens)
			if n > 60 {
				n = 1 + n%60
			}
			return map[string]interface{}{"type": "once", "times": n}, fmt.Sprintf("once(%d)", n)
		case 1:
			ops := engRates[w.Draw(len(engRates))]
			d := engDurs[w.Draw(len(engDurs))]
			if ops*d.Seconds() > float64(maxTokens) {
				continue
			}
			return map[string]interface{}{"type": "const", "ops": ops, "duration": d.String()}, fmt.Sprintf("const(%v,%v)", ops, d)
		case 2:
			a := engRates[w.Draw(len(engRates))]
			b := engRates[w.Draw(len(engRates))]
			d := engDurs[w.Draw(len(engDurs))]
			if (a+b)/2*d.Seconds() > float64(maxTokens) {
				continue
			}
			return map[string]interface{}{"type": "line", "from": a, "to": b, "duration": d.String()}, fmt.Sprintf("line(%v,%v,%v)", a, b, d)
		default:
			from := float64(w.Draw(4))
			to := from + float64(w.Draw(4))
			st := 1 + w.Draw(2)
			d := engDurs[w.Draw(4)]
			if (to+1)*(to-from+1)*d.Seconds() > float64(maxTokens) {
				continue
			}
			return map[string]interface{}{"type": "step", "from": from, "to": to, "step": st, "duration": d.String()}, fmt.Sprintf("step(%v,%v,%d,%v)", from, to, st, d)
		}
	}
}

// genRPS draws a finite RPS profile: a single leaf or a list (composite) of leaves.
func genRPS(w *simrt.Stream, maxTokens int) schedSpec {
	for {
		var sp schedSpec
		if w.Draw(3) == 0 {
			n := 2 + w.Draw(2)
			var list []interface{}
			desc := "["
			for i := 0; i < n; i++ {
				c, d := genLeafConf(w, maxTokens/n+1)
				list = append(list, c)
				if i > 0 {
					desc += ", "
				}
				desc += d
			}
			sp.Conf, sp.Desc = list, desc+"]"
		} else {
			c, d := genLeafConf(w, maxTokens)
			sp.Conf, sp.Desc = c, d
		}
		offs, dur, err := twinDrain(sp.Conf)
		if err != nil {
			panic(fmt.Sprintf("generated schedule %s does not decode: %v", sp.Desc, err))
		}
		if len(offs) > maxTokens {
			continue
		}
		sp.Tokens, sp.Dur, sp.Offs = len(offs), dur, offs
		return sp
	}
}

// genStartup draws an instance startup profile with at most maxInst instances.
func genStartup(w *simrt.Stream, maxInst int) schedSpec {
	for {
		var sp schedSpec
		switch w.Draw(5) {
		case 0, 1:
			n := 1 + w.Draw(maxInst)
			sp.Conf, sp.Desc = map[string]interface{}{"type": "once", "times": n}, fmt.Sprintf("once(%d)", n)
		case 2:
			ops := []float64{0.5, 1, 2, 4}[w.Draw(4)]
			d := engDurs[w.Draw(5)]
			sp.Conf, sp.Desc = map[string]interface{}{"type": "const", "ops": ops, "duration": d.String()}, fmt.Sprintf("const(%v,%v)", ops, d)
		case 3:
			from := w.Draw(3)
			to := from + w.Draw(maxInst)
			st := 1 + w.Draw(3)
			d := engDurs[w.Draw(5)]
			sp.Conf = map[string]interface{}{"type": "instance_step", "from": from, "to": to, "step": st, "stepduration": d.String()}
			sp.Desc = fmt.Sprintf("instance_step(%d,%d,%d,%v)", from, to, st, d)
		default:
			n1 := 1 + w.Draw(3)
			d := engDurs[w.Draw(4)]
			n2 := 1 + w.Draw(3)
			sp.Conf = []interface{}{
				map[string]interface{}{"type": "once", "times": n1},
				map[string]interface{}{"type": "const", "ops": 0, "duration": d.String()},
				map[string]interface{}{"type": "once", "times": n2},
			}
			sp.Desc = fmt.Sprintf("[once(%d), const(0,%v), once(%d)]", n1, d, n2)
		}
		// reference token offsets from the documented semantics (independent of pandora's schedules)
		offs, dur, minTok, err := ref.OffsetsOf(sp.Conf)
		if err != nil {
			panic(fmt.Sprintf("generated startup %s: %v", sp.Desc, err))
		}
		if minTok == 0 || len(offs) > maxInst {
			continue
		}
		sp.Tokens, sp.MinTokens, sp.Dur, sp.Offs = len(offs), minTok, dur, offs
		return sp
	}
}

// shot duration scripts
type shotScript struct {
	Kind string
	Seed uint64
	Base time.Duration
}

func genShots(w *simrt.Stream, interval time.Duration) shotScript {
	s := shotScript{Seed: uint64(w.Draw(1 << 20))}
	switch w.Draw(6) {
	case 0:
		s.Kind = "zero"
	case 1:
		s.Kind, s.Base = "fixed", []time.Duration{time.Millisecond, 50 * time.Millisecond, time.Second}[w.Draw(3)]
	case 2:
		s.Kind, s.Base = "heavy-tail", 2*time.Millisecond
	case 3:
		s.Kind, s.Base = "slower-than-interval", interval*3+time.Millisecond
	case 4:
		s.Kind, s.Base = "outliers", 5*time.Millisecond
	default:
		s.Kind, s.Base = "very-slow", []time.Duration{2500 * time.Millisecond, 7 * time.Second}[w.Draw(2)]
	}
	return s
}

func (s shotScript) dur(inst, shot int) time.Duration {
	h := simrt.Split(s.Seed, uint64(inst)*100003+uint64(shot))
	switch s.Kind {
	case "zero":
		return 0
	case "fixed", "slower-than-interval", "very-slow":
		return s.Base
	case "heavy-tail":
		if h%10 == 0 {
			return 3 * time.Second
		}
		if h%4 == 0 {
			return 300 * time.Millisecond
		}
		return s.Base
	case "outliers":
		if h%13 == 0 {
			return time.Duration(2+h%28) * time.Second
		}
		return s.Base
	}
	return 0
}

func (s shotScript) String() string { return fmt.Sprintf("%s(%v)", s.Kind, s.Base) }

type engSpec struct {
	Startup     schedSpec
	RPS         schedSpec
	PerInstance bool
	Ammo        int // num provider limit; 0 = unlimited
	Discard     bool
	Shots       shotScript
	Stalls      bool
	CancelAt    time.Duration // >0: caller cancels the run at this simulated instant
	GunErrAt    int           // k-th gun creation fails (-1 never); k=0 is the warm-up gun
	// ExtraPool: the engine runs a second, minimal pool (one instance, one shot, own components and log) listed before
	// the pool under observation: whatever the engine shares between its pools (counters, contexts) shows
	ExtraPool bool
	// WarmUp: the pool's warm-up takes this long
	WarmUp time.Duration
	// PanicOn: the PanicShot-th shot of instance PanicInst panics (the engine recovers it into a failed run)
	PanicOn              bool
	PanicInst, PanicShot int
	// RealProvider: "" = core num provider; "uri" / "json" = the real uri provider / generic json provider over a file
	// on the simulated disk, bounded by limit = Ammo
	RealProvider string
}

func (s engSpec) describe() map[string]any {
	return map[string]any{"startup": s.Startup.Desc, "rps": s.RPS.Desc, "rps_per_instance": s.PerInstance, "ammo_limit": s.Ammo,
		"discard_overflow": s.Discard, "shots": s.Shots.String(), "stalls": s.Stalls, "cancel_at": s.CancelAt.String(), "gun_err_at": s.GunErrAt, "shot_panic": fmt.Sprintf("%v inst=%d shot=%d", s.PanicOn, s.PanicInst, s.PanicShot),
		"rps_tokens": s.RPS.Tokens, "startup_tokens": s.Startup.Tokens}
}

type engResult struct {
	Log       *stubs.Log
	Evs       []stubs.Ev
	RunErr    error
	RunAt     time.Duration // simulated instant Engine.Run returned
	WaitAt    time.Duration
	WaitDone  bool
	Metrics   engine.Metrics
	Factory   *stubs.GunFactory
	Sim       simrt.Result
	SchedErrs int
}

func newMetrics() engine.Metrics {
	return engine.Metrics{Request: &monitoring.Counter{}, Response: &monitoring.Counter{}, InstanceStart: &monitoring.Counter{}, InstanceFinish: &monitoring.Counter{}}
}

// runEngine runs one pool with the real engine, real schedules, the real num
// provider and discard aggregator (both wrapped by recorders) and a stub gun.
func runEngine(r *R, sp engSpec, horizon time.Duration) *engResult {
	res := &engResult{}
	res.Sim = r.Sim(simrt.Config{Horizon: horizon, Grace: 5 * time.Second, Stalls: sp.Stalls, StallMax: 3 * time.Second, MaxSteps: 150000}, true, func() {
		log := stubs.NewLog()
		res.Log = log
		script := stubs.DefaultGunScript()
		script.ShotDur = sp.Shots.dur
		script.NewErrAt = sp.GunErrAt
		// the guns report a pooled sample per shot and the aggregator recycles what it has handled (as phout does): a
		// sample somebody keeps using after handing it over then meets another shot's values
		script.Report = true
		// the guns are closable: a gun the engine has closed must not be asked to shoot any more
		script.Closable = true
		script.WarmUpDur = sp.WarmUp
		if sp.PanicOn {
			script.PanicInst, script.PanicShot = sp.PanicInst, sp.PanicShot
		}
		fac := &stubs.GunFactory{Log: log, Script: script}
		res.Factory = fac
		startup, err := decodeSchedule(sp.Startup.Conf)
		if err != nil {
			panic(err)
		}
		res.Metrics = newMetrics()
		pool := engine.InstancePoolConfig{
			Provider:        &stubs.RecProvider{Provider: engProvider(sp), Log: log},
			Aggregator:      &stubs.RecAggregator{Aggregator: aggregator.NewDiscard(), Log: log, Recycle: true},
			NewGun:          fac.New,
			RPSPerInstance:  sp.PerInstance,
			StartupSchedule: &stubs.RecSchedule{Schedule: startup, Log: log, Name: "startup"},
			DiscardOverflow: sp.Discard,
			NewRPSSchedule: func() (core.Schedule, error) {
				s, err := decodeSchedule(sp.RPS.Conf)
				if err != nil {
					res.SchedErrs++
					return nil, err
				}
				return &stubs.RecSchedule{Schedule: s, Log: log, Name: "rps"}, nil
			},
		}
		poolList := []engine.InstancePoolConfig{pool}
		if sp.ExtraPool {
			xlog := stubs.NewLog()
			xstart, err := decodeSchedule(map[string]interface{}{"type": "once", "times": 1})
			if err != nil {
				panic(err)
			}
			xfac := &stubs.GunFactory{Log: xlog, Script: stubs.DefaultGunScript()}
			pool.ID = "observed"
			poolList = []engine.InstancePoolConfig{{
				ID:              "extra",
				Provider:        stubs.NewScriptProvider(xlog, 1),
				Aggregator:      aggregator.NewDiscard(),
				NewGun:          xfac.New,
				StartupSchedule: xstart,
				NewRPSSchedule: func() (core.Schedule, error) {
					return decodeSchedule(map[string]interface{}{"type": "once", "times": 1})
				},
			}, pool}
		}
		eng := engine.New(zap.NewNop(), res.Metrics, engine.Config{Pools: poolList})
		ctx, cancel := context.WithCancel(context.Background())
		defer cancel()
		if sp.CancelAt > 0 {
			go func() {
				time.Sleep(sp.CancelAt)
				log.Add(stubs.Ev{Kind: "cancel"})
				cancel()
			}()
		}
		res.RunErr = eng.Run(ctx)
		res.RunAt = time.Since(log.T0)
		log.Add(stubs.Ev{Kind: "run-returned"})
		eng.Wait()
		res.WaitAt = time.Since(log.T0)
		res.WaitDone = true
	})
	if res.Log != nil {
		res.Evs = res.Log.Snapshot()
	}
	return res
}

// engProvider builds the ammo provider of an engine-level run (call inside the bubble).
func engProvider(sp engSpec) core.Provider {
	if sp.RealProvider == "" {
		return provider.NewNum(sp.Ammo)
	}
	disk := simfs.New()
	var conf map[string]interface{}
	switch sp.RealProvider {
	case "uri":
		disk.WriteFile("/ammo/ammo.uri", []byte("/a t1\n/b t2\n/c\n[X-H: v]\n/d t4\n/e\n"))
		conf = map[string]interface{}{"type": "uri", "file": "/ammo/ammo.uri", "limit": sp.Ammo}
	default:
		disk.WriteFile("/ammo/ammo.json", []byte("{\"n\": 1}\n{\"n\": 2}\n{\"n\": 3}\n"))
		conf = map[string]interface{}{"type": "json", "source": map[string]interface{}{"type": "file", "path": "/ammo/ammo.json"}, "limit": sp.Ammo, "ammo-queue-size": 4}
	}
	GlobalFs.Set(disk)
	p, err := decodeProvider(conf)
	if err != nil {
		panic(fmt.Sprintf("provider config does not decode: %v", err))
	}
	return p
}
