// Package props holds the property harnesses: for each property a workload
// generator, the scenario that runs real pandora code inside the simulator and
// the oracle. The package is compiled (through the instrumenting overlay) into
// one test binary that the driver runs as worker processes.
package props

import (
	"context"
	"encoding/json"
	"fmt"
	"os"
	"regexp"
	"runtime"
	"sort"
	"strings"
	"testing"
	"testing/synctest"
	"time"

	"verifsim/simrt"
	"verifsim/simsync"
)

// Violation of a property found in one run.
type Violation struct {
	Sig    string `json:"sig"`    // property id + oracle clause + discriminating facts; never seeds or times
	Detail string `json:"detail"` // human readable, may contain times
}

// R is the context of one simulated run.
type R struct {
	Prop string
	Tier string
	Seed uint64
	Tape *simrt.Tape
	W, F *simrt.Stream
	T    *testing.T

	mu         simrt.HMutex
	Viol       []Violation
	notes      map[string]int
	faults     map[string]*[2]int
	nontrivial bool
	sample     any
	sims       []simrt.Result
	TraceFull  bool
	Mode       string // optional sub-mode forced from the command line
}

func (r *R) Fail(sig, format string, a ...any) {
	r.mu.Lock()
	defer r.mu.Unlock()
	for _, v := range r.Viol {
		if v.Sig == r.Prop+"/"+sig {
			return
		}
	}
	r.Viol = append(r.Viol, Violation{Sig: r.Prop + "/" + sig, Detail: fmt.Sprintf(format, a...)})
}

// Note counts an abstract state / reach probe for the evidence.
func (r *R) Note(key string) {
	r.mu.Lock()
	r.notes[key]++
	r.mu.Unlock()
}

// Fault records a fault kind as configured and, if fired, as having bitten.
func (r *R) Fault(kind string, fired bool) {
	r.mu.Lock()
	f := r.faults[kind]
	if f == nil {
		f = &[2]int{}
		r.faults[kind] = f
	}
	if fired {
		f[1]++
	} else {
		f[0]++
	}
	r.mu.Unlock()
}

func (r *R) NonTrivial()  { r.nontrivial = true }
func (r *R) Sample(v any) { r.sample = v }
func (r *R) Failed() bool { return len(r.Viol) > 0 }

var pandoraFrame = regexp.MustCompile(`github\.com/yandex/pandora/([^\s(]+)\.([A-Za-z0-9_.()*]+)\(`)

// frameSig extracts the innermost pandora function of a stack for signatures.
func frameSig(stack string) string {
	m := pandoraFrame.FindStringSubmatch(stack)
	if m == nil {
		return "nopandoraframe"
	}
	return m[1] + "." + m[2]
}

// Sim runs root as task 0 of a fresh simulation inside a synctest bubble and
// returns the infrastructure result. CRASH/HANG/LIVELOCK/SPIN are reported as
// violations of the running property with a class-specific signature unless
// the caller handles them (report=false).
func (r *R) Sim(cfg simrt.Config, report bool, root func()) simrt.Result {
	var res simrt.Result
	cfg.TraceFull = r.TraceFull
	// Each simulation runs in a subtest of its own: when the race detector reports something inside the bubble,
	// testing marks the bubble's T failed and synctest.Test calls FailNow on its parent - that must end only
	// this subtest, not the worker's loop over seeds.
	var escaped any
	r.T.Run("sim", func(t2 *testing.T) {
		defer func() {
			if p := recover(); p != nil {
				msg := fmt.Sprint(p)
				if strings.Contains(msg, "deadlock:") {
					// goroutines of third-party libraries (or tasks blocked forever in a
					// real primitive) were still blocked when the bubble ended: they are
					// abandoned; the verdict was taken before.
					return
				}
				escaped = p
			}
		}()
		simsync.ResetPools() // pooled objects of the runs before must not reach this one
		synctest.Test(t2, func(t *testing.T) {
			res = simrt.Run(r.Tape, cfg, root)
		})
	})
	if escaped != nil {
		panic(escaped)
	}
	r.sims = append(r.sims, res)
	if report {
		r.ReportInfra(res)
	}
	return res
}

func (r *R) ReportInfra(res simrt.Result) {
	switch res.Class {
	case simrt.Crash:
		r.Fail("CRASH/"+frameSig(res.Stack), "%s\n%s", res.Detail, res.Stack)
	case simrt.Hang:
		r.Fail("HANG", "%s", res.Detail)
	case simrt.Livelock:
		r.Fail("LIVELOCK", "%s", res.Detail)
	case simrt.Spin:
		r.Fail("SPIN/"+frameSig(res.Stack), "%s\n%s", res.Detail, res.Stack)
	}
}

// Prop is a registered property harness.
type Prop struct {
	ID  string
	Run func(r *R)
	// Rule describes what makes a run non-trivial/distinct (evidence).
	Rule       string
	Components map[string]string // component -> real | stub | simulated
	Level      string
}

var registry = map[string]*Prop{}

func Register(p *Prop) { registry[p.ID] = p }

// RunResult is what the worker reports per run (only kept for violations and samples).
type RunResult struct {
	Prop      string          `json:"property"`
	Seed      uint64          `json:"seed"`
	Tier      string          `json:"tier"`
	Mode      string          `json:"mode,omitempty"`
	Tape      simrt.TapeData  `json:"tape"`
	Viol      []Violation     `json:"violations"`
	Sample    any             `json:"sample,omitempty"`
	TraceHash string          `json:"trace_hash"`
	Steps     int             `json:"steps"`
	SimNS     int64           `json:"sim_ns"`
	Trace     []string        `json:"trace,omitempty"`
	Notes     map[string]int  `json:"notes,omitempty"`
	Min       *MinInfo        `json:"minimised_from,omitempty"`
	Extra     json.RawMessage `json:"extra,omitempty"`
}

type MinInfo struct {
	W, F, S int
	Runs    int
}

// Summary is what a worker writes when it has finished its seed range.
type Summary struct {
	Prop       string            `json:"property"`
	Runs       int               `json:"runs"`
	NonTrivial int               `json:"nontrivial"`
	Hashes     []uint64          `json:"hashes"` // distinct trace hashes of non-trivial runs
	Notes      map[string]int    `json:"notes"`
	Faults     map[string][2]int `json:"faults"`
	Steps      int64             `json:"steps"`
	Switches   int64             `json:"switches"`
	SimNS      int64             `json:"sim_ns"`
	Stalls     int64             `json:"stalls"`
	Tasks      int64             `json:"tasks"`
	WallS      float64           `json:"wall_s"`
	Samples    []RunResult       `json:"samples"`
	Violations []RunResult       `json:"violations"`
	SiteHits   map[string]int    `json:"site_hits"`
	Leaks      map[string]int    `json:"leaks"`
	Classes    map[string]int    `json:"classes"`
	Rule       string            `json:"rule"`
	Components map[string]string `json:"components"`
}

func execRun(t *testing.T, p *Prop, tier string, seed uint64, tape *simrt.Tape, traceFull bool, mode string) (*R, RunResult) {
	r := &R{Prop: p.ID, Tier: tier, Seed: seed, Tape: tape, W: tape.W, F: tape.F, T: t,
		notes: map[string]int{}, faults: map[string]*[2]int{}, TraceFull: traceFull, Mode: mode}
	p.Run(r)
	rr := RunResult{Prop: p.ID, Seed: seed, Tier: tier, Mode: mode, Tape: tape.Data(), Viol: r.Viol, Sample: r.sample, Notes: r.notes}
	var h uint64
	for _, s := range r.sims {
		h = h*1099511628211 ^ s.TraceHash
		rr.Steps += s.Steps
		rr.SimNS += int64(s.SimTime)
		if traceFull {
			rr.Trace = append(rr.Trace, s.Trace...)
		}
	}
	rr.TraceHash = fmt.Sprintf("%016x", h)
	return r, rr
}

// ---- worker entry (called from TestWorker) ----

type WorkerArgs struct {
	Prop     string
	Tier     string
	Base     uint64
	From     int
	Count    int
	Out      string
	Sites    string
	Replay   string
	Minimise string
	Trace    bool
	Deadline time.Duration
	Mode     string
}

func loadSites(path string) {
	if path == "" {
		return
	}
	b, err := os.ReadFile(path)
	if err != nil {
		return
	}
	var m map[string]string
	if json.Unmarshal(b, &m) != nil {
		return
	}
	im := map[int]string{}
	for k, v := range m {
		var id int
		fmt.Sscan(k, &id)
		im[id] = v
	}
	simrt.RegisterSites(im)
}

func Worker(t *testing.T, a WorkerArgs) {
	loadSites(a.Sites)
	// The generator's environment names HTTP proxies, as CI hosts and corporate machines do. pandora connects to its
	// target, never through an environment proxy; the addresses below have no listener on the simulated network.
	// (Read once per process by net/http, so it is set before anything runs; grpc-go is dialled through simnet's own
	// dialer and does not consult it.)
	os.Setenv("HTTP_PROXY", "http://10.254.254.254:3128")
	os.Setenv("HTTPS_PROXY", "http://10.254.254.253:3128")
	os.Unsetenv("NO_PROXY")
	os.Unsetenv("no_proxy")
	// process-wide one-time registrations happen before the first run and outside any simulation, so that
	// the first run of a process (e.g. a replay) takes exactly the same steps as a run later in a batch
	ensureImport()
	if a.Replay != "" {
		replay(t, a)
		return
	}
	if a.Minimise != "" {
		minimise(t, a)
		return
	}
	p := registry[a.Prop]
	if p == nil {
		fmt.Fprintf(os.Stderr, "unknown property %q\n", a.Prop)
		os.Exit(2)
	}
	start := time.Now()
	sum := Summary{Prop: a.Prop, Notes: map[string]int{}, Faults: map[string][2]int{}, SiteHits: map[string]int{}, Leaks: map[string]int{}, Classes: map[string]int{},
		Rule: p.Rule, Components: p.Components}
	hashes := map[uint64]bool{}
	out, err := os.Create(a.Out)
	if err != nil {
		fmt.Fprintln(os.Stderr, err)
		os.Exit(2)
	}
	defer out.Close()
	enc := json.NewEncoder(out)
	nviol := 0
	for i := 0; i < a.Count; i++ {
		if a.Deadline > 0 && time.Since(start) > a.Deadline {
			break
		}
		seed := simrt.Split(a.Base, uint64(a.From+i))
		// BEGIN line: lets the driver attribute a worker crash to a seed
		fmt.Fprintf(os.Stderr, "BEGIN property=%s seed=%d\n", a.Prop, seed)
		wd := watchdog(a.Prop, seed, 120*time.Second)
		r, rr := execRun(t, p, a.Tier, seed, simrt.NewTape(seed), a.Trace, a.Mode)
		wd.Stop()
		sum.Runs++
		for k, v := range r.notes {
			sum.Notes[k] += v
		}
		for k, v := range r.faults {
			f := sum.Faults[k]
			f[0] += v[0]
			f[1] += v[1]
			sum.Faults[k] = f
		}
		for _, s := range r.sims {
			sum.Steps += int64(s.Steps)
			sum.Switches += int64(s.Switches)
			sum.Stalls += int64(s.Stalls)
			sum.Tasks += int64(s.Tasks)
			sum.SimNS += int64(s.SimTime)
			for _, l := range s.Leaked {
				sum.Leaks[l]++
			}
			for id, c := range s.SiteHits {
				if id > 0 && id < 1_000_000 { // sites of the instrumented sources (the shims of sync, atomic, ... have fixed ids above)
					sum.SiteHits[simrt.SiteName(id)] += c
				}
			}
			sum.Classes[string(s.Class)]++
		}
		if r.nontrivial {
			sum.NonTrivial++
			var h uint64
			fmt.Sscanf(rr.TraceHash, "%x", &h)
			hashes[h] = true
		}
		if len(sum.Samples) < 3 && r.nontrivial && r.sample != nil {
			s := rr
			s.Trace = nil
			if len(s.Tape.S) > 40 {
				s.Tape.S = s.Tape.S[:40]
			}
			sum.Samples = append(sum.Samples, s)
		}
		if len(rr.Viol) > 0 {
			nviol++
			if len(sum.Violations) < 50 {
				sum.Violations = append(sum.Violations, rr)
			}
			// a broken tree can make every run expensive (livelocks burn the whole step budget):
			// enough violating runs have been collected from this chunk
			if nviol >= 25 {
				break
			}
		}
		if a.Trace {
			enc.Encode(map[string]any{"seed": seed, "hash": rr.TraceHash, "steps": rr.Steps, "viol": sigs(rr.Viol), "trace": rr.Trace})
		}
	}
	for h := range hashes {
		sum.Hashes = append(sum.Hashes, h)
	}
	sort.Slice(sum.Hashes, func(i, j int) bool { return sum.Hashes[i] < sum.Hashes[j] })
	sum.WallS = time.Since(start).Seconds()
	if !a.Trace {
		enc.Encode(sum)
	}
}

func sigs(v []Violation) []string {
	var s []string
	for _, x := range v {
		s = append(s, x.Sig)
	}
	sort.Strings(s)
	return s
}

// watchdog: harness trouble (a run that does not end in real time) is exit 2,
// never a violation.
func watchdog(prop string, seed uint64, d time.Duration) *time.Timer {
	return time.AfterFunc(d, func() {
		buf := make([]byte, 1<<20)
		n := runtime.Stack(buf, true)
		fmt.Fprintf(os.Stderr, "WATCHDOG property=%s seed=%d: run exceeded %v of real time\n%s\n", prop, seed, d, buf[:n])
		os.Exit(2)
	})
}

// ---- replay ----

type ReplayFile struct {
	Prop    string         `json:"property"`
	Seed    uint64         `json:"seed"`
	Tier    string         `json:"tier"`
	Mode    string         `json:"mode,omitempty"`
	Tape    simrt.TapeData `json:"tape"`
	Verdict Violation      `json:"verdict"`
	Min     *MinInfo       `json:"minimised_from,omitempty"`
	Sample  any            `json:"workload_sample,omitempty"`
	// FromSeed: the run is regenerated from its seed (verdicts taken from a worker's stderr - data race reports,
	// runtime fatal errors - have no recorded tape)
	FromSeed bool `json:"from_seed,omitempty"`
}

func readReplay(path string) ReplayFile {
	b, err := os.ReadFile(path)
	if err != nil {
		fmt.Fprintln(os.Stderr, err)
		os.Exit(2)
	}
	var rf ReplayFile
	if err := json.Unmarshal(b, &rf); err != nil {
		fmt.Fprintln(os.Stderr, err)
		os.Exit(2)
	}
	return rf
}

func replay(t *testing.T, a WorkerArgs) {
	rf := readReplay(a.Replay)
	p := registry[rf.Prop]
	if p == nil {
		fmt.Fprintf(os.Stderr, "unknown property %q\n", rf.Prop)
		os.Exit(2)
	}
	wd := watchdog(rf.Prop, rf.Seed, 300*time.Second)
	tape := simrt.ReplayTape(rf.Tape)
	if rf.FromSeed {
		tape = simrt.NewTape(rf.Seed)
	}
	fmt.Fprintf(os.Stderr, "BEGIN property=%s seed=%d\n", rf.Prop, rf.Seed)
	_, rr := execRun(t, p, rf.Tier, rf.Seed, tape, a.Trace, rf.Mode)
	wd.Stop()
	out := os.Stdout
	if a.Out != "" {
		f, err := os.Create(a.Out)
		if err == nil {
			defer f.Close()
			out = f
		}
	}
	json.NewEncoder(out).Encode(rr)
}

// ---- minimisation: delta debugging over the three tape streams while the
// same violation signature persists ----

func hasSig(v []Violation, sig string) bool {
	for _, x := range v {
		if x.Sig == sig {
			return true
		}
	}
	return false
}

func minimise(t *testing.T, a WorkerArgs) {
	rf := readReplay(a.Minimise)
	p := registry[rf.Prop]
	sig := rf.Verdict.Sig
	runs := 0
	try := func(td simrt.TapeData) (bool, RunResult) {
		runs++
		wd := watchdog(rf.Prop, rf.Seed, 300*time.Second)
		_, rr := execRun(t, p, rf.Tier, rf.Seed, simrt.ReplayTape(td), false, rf.Mode)
		wd.Stop()
		return hasSig(rr.Viol, sig), rr
	}
	cur := rf.Tape
	ok, last := try(cur)
	if !ok {
		fmt.Fprintf(os.Stderr, "minimise: violation %s does not reproduce from its tape\n", sig)
		os.Exit(3)
	}
	orig := MinInfo{W: len(cur.W), F: len(cur.F), S: len(cur.S)}
	deadline := time.Now().Add(a.Deadline)
	if a.Deadline == 0 {
		deadline = time.Now().Add(60 * time.Second)
	}
	get := func(td *simrt.TapeData, k int) *[]int {
		switch k {
		case 0:
			return &td.F
		case 1:
			return &td.S
		}
		return &td.W
	}
	improved := true
	for improved && time.Now().Before(deadline) {
		improved = false
		for k := 0; k < 3; k++ {
			// 1. truncate (everything after becomes 0)
			for n := len(*get(&cur, k)) / 2; n >= 1 && time.Now().Before(deadline); n /= 2 {
				for {
					l := *get(&cur, k)
					if len(l) < n {
						break
					}
					cand := cur
					*get(&cand, k) = append([]int(nil), l[:len(l)-n]...)
					if ok, rr := try(cand); ok {
						cur, last, improved = cand, rr, true
					} else {
						break
					}
				}
			}
			// 2. zero blocks, then single entries
			for bs := len(*get(&cur, k)) / 2; bs >= 1 && time.Now().Before(deadline); bs /= 2 {
				l := *get(&cur, k)
				for i := 0; i+bs <= len(l) && time.Now().Before(deadline); i += bs {
					allz := true
					for _, v := range l[i : i+bs] {
						if v != 0 {
							allz = false
						}
					}
					if allz {
						continue
					}
					cand := cur
					nl := append([]int(nil), l...)
					for j := i; j < i+bs; j++ {
						nl[j] = 0
					}
					*get(&cand, k) = nl
					if ok, rr := try(cand); ok {
						cur, last, improved = cand, rr, true
						l = nl
					}
				}
			}
			// 3. lower single values
			l := *get(&cur, k)
			for i := 0; i < len(l) && time.Now().Before(deadline); i++ {
				for l[i] > 0 {
					cand := cur
					nl := append([]int(nil), l...)
					nl[i] = l[i] / 2
					*get(&cand, k) = nl
					if ok, rr := try(cand); ok {
						cur, last, improved = cand, rr, true
						l = nl
					} else {
						break
					}
				}
			}
		}
	}
	// the used prefix of the tapes as observed by the last successful run
	rf.Tape = last.Tape
	rf.Tape.Seed = cur.Seed
	for _, v := range last.Viol {
		if v.Sig == sig {
			rf.Verdict = v
		}
	}
	rf.Min = &orig
	rf.Min.Runs = runs
	rf.Sample = last.Sample
	b, _ := json.MarshalIndent(rf, "", " ")
	if err := os.WriteFile(a.Out, b, 0o644); err != nil {
		fmt.Fprintln(os.Stderr, err)
		os.Exit(2)
	}
}

func backgroundCtx() context.Context { return context.Background() }
