package props

import (
	"context"
	"fmt"
	"google.golang.org/grpc/credentials"
	"sort"
	"strings"
	"time"

	"google.golang.org/grpc"
	"google.golang.org/grpc/codes"
	"google.golang.org/grpc/metadata"
	"google.golang.org/grpc/reflection"
	"google.golang.org/grpc/status"

	server "github.com/yandex/pandora/examples/grpc/server"

	"verifsim/simnet"
	"verifsim/simrt"
)

// ---- in-bubble gRPC target: the example service's API with scripted behaviour and a recording interceptor ----

type grpcCall struct {
	Method   string
	Fields   string // the request message, field by field
	MD       map[string][]string
	Deadline time.Duration // time left until the call's deadline on arrival (-1: none)
	At       time.Duration
	Seq      uint64
	N        int
}

type grpcAnswer struct {
	Code  codes.Code
	Delay time.Duration
}

type grpcTarget struct {
	server.UnimplementedTargetServiceServer
	mu     simrt.HMutex
	t0     time.Time
	calls  []grpcCall
	Script func(n int, c *grpcCall) grpcAnswer
	srv    *grpc.Server
}

func (t *grpcTarget) Calls() []grpcCall {
	t.mu.Lock()
	defer t.mu.Unlock()
	return append([]grpcCall(nil), t.calls...)
}

func fieldsOf(req interface{}) string {
	switch m := req.(type) {
	case *server.HelloRequest:
		return fmt.Sprintf("name=%q", m.GetName())
	case *server.AuthRequest:
		return fmt.Sprintf("login=%q pass=%q", m.GetLogin(), m.GetPass())
	case *server.ListRequest:
		return fmt.Sprintf("token=%q user_id=%d", m.GetToken(), m.GetUserId())
	case *server.OrderRequest:
		return fmt.Sprintf("token=%q user_id=%d item_id=%d", m.GetToken(), m.GetUserId(), m.GetItemId())
	case *server.StatsRequest:
		return "stats"
	case *server.ResetRequest:
		return "reset"
	}
	return fmt.Sprintf("%T", req)
}

func (t *grpcTarget) intercept(ctx context.Context, req interface{}, info *grpc.UnaryServerInfo, handler grpc.UnaryHandler) (interface{}, error) {
	if !strings.HasPrefix(info.FullMethod, "/target.") {
		return handler(ctx, req)
	}
	c := grpcCall{Method: info.FullMethod, Fields: fieldsOf(req), MD: map[string][]string{}, Deadline: -1, At: time.Since(t.t0), Seq: simrt.Seq()}
	if md, ok := metadata.FromIncomingContext(ctx); ok {
		for k, v := range md {
			c.MD[k] = append([]string(nil), v...)
		}
	}
	if dl, ok := ctx.Deadline(); ok {
		c.Deadline = time.Until(dl)
	}
	t.mu.Lock()
	c.N = len(t.calls)
	t.calls = append(t.calls, c)
	t.mu.Unlock()
	ans := grpcAnswer{}
	if t.Script != nil {
		ans = t.Script(c.N, &c)
	}
	if ans.Delay > 0 {
		select {
		case <-time.After(ans.Delay):
		case <-ctx.Done():
			return nil, status.FromContextError(ctx.Err()).Err()
		}
	}
	if ans.Code != codes.OK {
		return nil, status.Error(ans.Code, "scripted "+ans.Code.String())
	}
	return handler(ctx, req)
}

func (t *grpcTarget) Hello(ctx context.Context, r *server.HelloRequest) (*server.HelloResponse, error) {
	return &server.HelloResponse{Hello: "Hello " + r.GetName() + "!"}, nil
}
func (t *grpcTarget) Auth(ctx context.Context, r *server.AuthRequest) (*server.AuthResponse, error) {
	return &server.AuthResponse{UserId: 7, Token: "token-" + r.GetLogin()}, nil
}
func (t *grpcTarget) List(ctx context.Context, r *server.ListRequest) (*server.ListResponse, error) {
	return &server.ListResponse{Result: []*server.ListItem{{ItemId: 701}, {ItemId: 702}, {ItemId: 703}}}, nil
}
func (t *grpcTarget) Order(ctx context.Context, r *server.OrderRequest) (*server.OrderResponse, error) {
	return &server.OrderResponse{OrderId: r.GetItemId() + 1}, nil
}
func (t *grpcTarget) Stats(ctx context.Context, r *server.StatsRequest) (*server.StatsResponse, error) {
	return &server.StatsResponse{Hello: 1}, nil
}

// startGRPCTarget starts the gRPC server (with reflection) on the simulated network; call inside the bubble.
func startGRPCTarget(n *simnet.Net, addr string, script func(n int, c *grpcCall) grpcAnswer) *grpcTarget {
	return startGRPCTargetTLS(n, addr, false, script)
}

// startGRPCTargetTLS: the same server behind TLS (the gun's tls option; the gun does not verify the certificate).
func startGRPCTargetTLS(n *simnet.Net, addr string, useTLS bool, script func(n int, c *grpcCall) grpcAnswer) *grpcTarget {
	ln, err := n.Listen(addr)
	if err != nil {
		panic(err)
	}
	t := &grpcTarget{t0: time.Now(), Script: script}
	sopts := []grpc.ServerOption{grpc.UnaryInterceptor(t.intercept)}
	if useTLS {
		cert := testCert()
		sopts = append(sopts, grpc.Creds(credentials.NewServerTLSFromCert(&cert)))
	}
	t.srv = grpc.NewServer(sopts...)
	server.RegisterTargetServiceServer(t.srv, t)
	reflection.Register(t.srv)
	go func() { // nosim
		t.srv.Serve(ln)
	}()
	return t
}

func mdKey(md map[string][]string, skip func(string) bool) string {
	var ks []string
	for k, v := range md {
		if skip != nil && skip(k) {
			continue
		}
		ks = append(ks, k+"="+strings.Join(v, "|"))
	}
	sort.Strings(ks)
	return strings.Join(ks, "; ")
}

// the documented mapping of gRPC status codes to HTTP-style codes (docs/eng/grpc-generator.md, transcribed)
var grpcDocMapping = map[codes.Code]int{
	codes.OK: 200, codes.Canceled: 499, codes.InvalidArgument: 400, codes.DeadlineExceeded: 504, codes.NotFound: 404, codes.AlreadyExists: 409,
	codes.PermissionDenied: 403, codes.ResourceExhausted: 429, codes.FailedPrecondition: 400, codes.Aborted: 409, codes.OutOfRange: 400,
	codes.Unimplemented: 501, codes.Unavailable: 503, codes.Unauthenticated: 401,
	// "unknown -> 500"
	codes.Unknown: 500, codes.Internal: 500, codes.DataLoss: 500,
	codes.Code(42): 500, codes.Code(17): 500,
}
