package props

import (
	"bufio"
	"context"
	"crypto/ecdsa"
	"crypto/elliptic"
	"crypto/rand" // nosim
	"crypto/tls"
	"crypto/x509"
	"crypto/x509/pkix"
	"fmt"
	"io"
	"math/big"
	"net"
	"net/http"
	"sort"
	"strings"
	"sync" // nosim
	"time"

	"github.com/yandex/pandora/core"
	"github.com/yandex/pandora/core/aggregator/netsample"
	"github.com/yandex/pandora/core/config"
	"github.com/yandex/pandora/core/coreutil"
	"github.com/yandex/pandora/core/engine"
	"github.com/yandex/pandora/core/register"
	"github.com/yandex/pandora/lib/netutil"
	"go.uber.org/zap"
	"go.uber.org/zap/zapcore"
	"golang.org/x/net/http2"

	"verifsim/simfs"
	"verifsim/simnet"
	"verifsim/simrt"
)

// ---- recording aggregator, registered as result type "verif/rec" ----

type recSample struct {
	Tags  string
	ID    uint64
	Proto int
	Net   int
	Err   string
	At    time.Duration
	Seq   uint64
	Task  int
	Other string // non-netsample sample
}

type recAggr struct {
	mu      simrt.HMutex
	t0      time.Time
	samples []recSample
}

func (a *recAggr) Run(ctx context.Context, _ core.AggregatorDeps) error {
	<-ctx.Done()
	return nil
}

func (a *recAggr) Report(s core.Sample) {
	rs := recSample{At: time.Since(a.t0), Seq: simrt.Seq(), Task: simrt.CurTask()}
	if ns, ok := s.(*netsample.Sample); ok {
		rs.Tags, rs.ID, rs.Proto, rs.Net = ns.Tags(), ns.ID(), ns.ProtoCode(), netsample.VerifNetCode(ns)
		if e := ns.Err(); e != nil {
			rs.Err = e.Error()
		}
	} else {
		rs.Other = fmt.Sprintf("%T", s)
	}
	a.mu.Lock()
	a.samples = append(a.samples, rs)
	a.mu.Unlock()
	// like the real aggregators: a handled sample goes back to the pool it was borrowed from, so the guns of the
	// run meet recycled samples (a field a gun forgets to set then carries another request's value)
	if ns, ok := s.(*netsample.Sample); ok {
		netsample.VerifRelease(ns)
	} else {
		coreutil.ReturnSampleIfBorrowed(s)
	}
}

func (a *recAggr) Samples() []recSample {
	a.mu.Lock()
	defer a.mu.Unlock()
	return append([]recSample(nil), a.samples...)
}

var curRec *recAggr

func init() {
	prev := importExtra
	importExtra = func() {
		prev()
		register.Aggregator("verif/rec", func() core.Aggregator { return curRec })
	}
}

// ---- in-bubble HTTP target ----

type seenReq struct {
	Method, URI, Host string
	Hdr               map[string][]string
	Body              []byte
	Remote            string // client address = connection identity
	TLS               bool
	At                time.Duration
	Seq               uint64
	N                 int // arrival index
}

// respScript decides the answer to the n-th request (arrival order).
type respScript struct {
	Status int
	Hdr    map[string]string
	Body   []byte
	Delay  time.Duration
	Abort  bool   // close the connection without a response (transport error at the client)
	Raw    []byte // with Abort: bytes written before the connection is closed (e.g. a truncated response)
}

type httpTarget struct {
	mu       simrt.HMutex
	t0       time.Time
	seen     []seenReq
	Script   func(n int, r *seenReq) respScript
	srv      *http.Server
	ln       net.Listener
	connects []string // authority of every CONNECT request received
}

func (t *httpTarget) Connects() []string {
	t.mu.Lock()
	defer t.mu.Unlock()
	return append([]string(nil), t.connects...)
}

func (t *httpTarget) Seen() []seenReq {
	t.mu.Lock()
	defer t.mu.Unlock()
	return append([]seenReq(nil), t.seen...)
}

// oneConnListener hands one established connection to an http.Server (the tunnel of a CONNECT request).
type oneConnListener struct {
	c    net.Conn
	done bool
}

func (l *oneConnListener) Accept() (net.Conn, error) {
	if l.done {
		return nil, io.EOF
	}
	l.done = true
	return l.c, nil
}
func (l *oneConnListener) Close() error   { return nil }
func (l *oneConnListener) Addr() net.Addr { return l.c.LocalAddr() }

func (t *httpTarget) ServeHTTP(w http.ResponseWriter, req *http.Request) {
	if req.Method == http.MethodConnect {
		// the target as an HTTP proxy (connect gun): establish the tunnel and serve the requests inside it like any other
		t.mu.Lock()
		t.connects = append(t.connects, req.RequestURI)
		t.mu.Unlock()
		if hj, ok := w.(http.Hijacker); ok {
			if c, _, err := hj.Hijack(); err == nil {
				c.Write([]byte("HTTP/1.1 200 Connection established\r\n\r\n"))
				srv := &http.Server{Handler: t}
				go srv.Serve(&oneConnListener{c: c}) // nosim
				return
			}
		}
		w.WriteHeader(http.StatusBadGateway)
		return
	}
	body, _ := io.ReadAll(req.Body)
	s := seenReq{Method: req.Method, URI: req.RequestURI, Host: req.Host, Hdr: map[string][]string{}, Body: body, Remote: req.RemoteAddr, TLS: req.TLS != nil, At: time.Since(t.t0), Seq: simrt.Seq()}
	for k, v := range req.Header {
		s.Hdr[k] = append([]string(nil), v...)
	}
	t.mu.Lock()
	s.N = len(t.seen)
	t.seen = append(t.seen, s)
	t.mu.Unlock()
	rs := respScript{Status: 200}
	if t.Script != nil {
		rs = t.Script(s.N, &s)
	}
	if rs.Delay > 0 {
		time.Sleep(rs.Delay)
	}
	if rs.Abort {
		if hj, ok := w.(http.Hijacker); ok {
			if c, _, err := hj.Hijack(); err == nil {
				if len(rs.Raw) > 0 {
					c.Write(rs.Raw)
				}
				c.Close()
				return
			}
		}
	}
	for k, v := range rs.Hdr {
		w.Header().Set(k, v)
	}
	if rs.Status == 0 {
		rs.Status = 200
	}
	w.WriteHeader(rs.Status)
	if len(rs.Body) > 0 && req.Method != "HEAD" {
		w.Write(rs.Body)
	}
}

var (
	certOnce sync.Once // nosim
	simCert  tls.Certificate
)

// testCert: a throw-away certificate (pandora's clients do not verify it); made once per process outside the bubble.
func testCert() tls.Certificate {
	certOnce.Do(func() {
		key, err := ecdsa.GenerateKey(elliptic.P256(), rand.Reader)
		if err != nil {
			panic(err)
		}
		tmpl := &x509.Certificate{SerialNumber: big.NewInt(1), Subject: pkix.Name{CommonName: "target.sim"},
			NotBefore: time.Date(1999, 1, 1, 0, 0, 0, 0, time.UTC), NotAfter: time.Date(2100, 1, 1, 0, 0, 0, 0, time.UTC),
			KeyUsage: x509.KeyUsageDigitalSignature, ExtKeyUsage: []x509.ExtKeyUsage{x509.ExtKeyUsageServerAuth}, DNSNames: []string{"target.sim"}}
		der, err := x509.CreateCertificate(rand.Reader, tmpl, tmpl, &key.PublicKey, key)
		if err != nil {
			panic(err)
		}
		simCert = tls.Certificate{Certificate: [][]byte{der}, PrivateKey: key}
	})
	return simCert
}

// startHTTPTarget starts a real net/http server on the simulated network (call inside the bubble).
// tlsOpts tunes the TLS side of the target (http2 checks).
type tlsOpts struct {
	H2            bool             // offer and serve HTTP/2
	FailHandshake func(n int) bool // the n-th TLS handshake (0-based) is answered with a fatal alert (internal_error)
}

func startHTTPTarget(n *simnet.Net, addr string, useTLS bool, script func(n int, r *seenReq) respScript) *httpTarget {
	return startHTTPTargetTLS(n, addr, useTLS, tlsOpts{}, script)
}

func startHTTPTargetTLS(n *simnet.Net, addr string, useTLS bool, opts tlsOpts, script func(n int, r *seenReq) respScript) *httpTarget {
	ln, err := n.Listen(addr)
	if err != nil {
		panic(err)
	}
	t := &httpTarget{t0: time.Now(), Script: script}
	var l net.Listener = ln
	t.srv = &http.Server{Handler: t, ErrorLog: nil}
	if useTLS {
		cfg := &tls.Config{Certificates: []tls.Certificate{testCert()}, NextProtos: []string{"http/1.1"}}
		if opts.H2 {
			http2.ConfigureServer(t.srv, &http2.Server{})
			cfg.NextProtos = []string{"h2", "http/1.1"}
		}
		if opts.FailHandshake != nil {
			var hmu simrt.HMutex
			hn := 0
			base := cfg
			cfg = base.Clone()
			cfg.GetConfigForClient = func(*tls.ClientHelloInfo) (*tls.Config, error) {
				hmu.Lock()
				k := hn
				hn++
				hmu.Unlock()
				if opts.FailHandshake(k) {
					return nil, fmt.Errorf("injected TLS handshake failure #%d", k)
				}
				return nil, nil
			}
		}
		l = tls.NewListener(ln, cfg)
	}
	t.ln = l
	go func() { // nosim
		t.srv.Serve(l)
	}()
	return t
}

// ---- byte-level scripted peer (faults the net/http server cannot produce) ----

type rawAction struct {
	Kind  string // respond, close-before-response, garbage, partial-headers, short-body, no-response, huge-headers, bad-chunk, reset-mid-body
	Bytes []byte // what to write
	Then  string // "", "close", "hang"
	Delay time.Duration
}

type rawPeer struct {
	mu     simrt.HMutex
	t0     time.Time
	seen   []seenReq
	Script func(n int, r *seenReq) rawAction
	ln     *simnet.Listener
	// TLS, when set, makes the peer speak TLS; HangTLS(k) tells whether the k-th accepted connection never answers
	// the ClientHello (the TCP connection stays open and silent)
	TLS     *tls.Config
	HangTLS func(k int) bool
	conns   int
}

func (p *rawPeer) Seen() []seenReq {
	p.mu.Lock()
	defer p.mu.Unlock()
	return append([]seenReq(nil), p.seen...)
}

func startRawPeer(n *simnet.Net, addr string, script func(n int, r *seenReq) rawAction) *rawPeer {
	ln, err := n.Listen(addr)
	if err != nil {
		panic(err)
	}
	p := &rawPeer{t0: time.Now(), Script: script, ln: ln}
	go func() { // nosim
		for {
			c, err := ln.Accept()
			if err != nil {
				return
			}
			go p.serve(c) // nosim
		}
	}()
	return p
}

func (p *rawPeer) serve(c net.Conn) {
	defer c.Close()
	if p.TLS != nil {
		p.mu.Lock()
		k := p.conns
		p.conns++
		p.mu.Unlock()
		if p.HangTLS != nil && p.HangTLS(k) {
			buf := make([]byte, 1024)
			for {
				if _, err := c.Read(buf); err != nil {
					return
				}
			}
		}
		c = tls.Server(c, p.TLS)
	}
	br := bufio.NewReader(c)
	for {
		req, err := http.ReadRequest(br)
		if err != nil {
			return
		}
		body, _ := io.ReadAll(req.Body)
		s := seenReq{Method: req.Method, URI: req.RequestURI, Host: req.Host, Hdr: map[string][]string{}, Body: body, Remote: c.RemoteAddr().String(), At: time.Since(p.t0), Seq: simrt.Seq()}
		for k, v := range req.Header {
			s.Hdr[k] = append([]string(nil), v...)
		}
		p.mu.Lock()
		s.N = len(p.seen)
		p.seen = append(p.seen, s)
		p.mu.Unlock()
		act := p.Script(s.N, &s)
		if act.Delay > 0 {
			time.Sleep(act.Delay)
		}
		if len(act.Bytes) > 0 {
			if _, err := c.Write(act.Bytes); err != nil {
				return
			}
		}
		switch act.Then {
		case "close":
			return
		case "reset":
			if sc := simnet.ConnOf(c); sc != nil {
				sc.Reset()
			}
			return
		case "hang":
			// keep the connection open without another byte until the client gives up
			buf := make([]byte, 1)
			c.Read(buf)
			return
		}
	}
}

// ---- one pool of real pandora components against the target ----

type httpPoolSpec struct {
	Ammo      map[string]interface{} // provider config
	Gun       map[string]interface{} // gun config
	Instances int
	Tokens    int // once(Tokens) shared profile
	RPS       map[string]interface{}
	CancelAt  time.Duration // >0: the caller cancels the run at this simulated instant
	Files     map[string][]byte
	Horizon   time.Duration
	Stalls    bool
	DebugLog  bool // the engine's (and so every gun's) logger has the debug level enabled, as with `log: {level: debug}`
}

type httpPoolResult struct {
	CancelSeq uint64 // >0: the caller's cancel happened (sequence stamp / instant)
	CancelT   time.Duration
	RunErr    error
	RunDone   bool
	WaitDone  bool
	DecodeErr error
	Samples   []recSample
	Sim       simrt.Result
	Net       *simnet.Net
	NetFired  map[string]int
	Conns     []*simnet.Conn
	RunAt     time.Duration
}

// runHTTPPool: prepare is called inside the bubble with the fresh network to start the target.
func runHTTPPool(r *R, sp httpPoolSpec, netSetup func(n *simnet.Net), prepare func(n *simnet.Net)) *httpPoolResult {
	res := &httpPoolResult{}
	if sp.Horizon == 0 {
		sp.Horizon = time.Hour
	}
	res.Sim = r.Sim(simrt.Config{Horizon: sp.Horizon, Grace: 3 * time.Second, Stalls: sp.Stalls, StallMax: 500 * time.Millisecond, MaxSteps: 300000, TickLimit: 3_000_000}, false, func() {
		t0 := time.Now()
		n := simnet.New()
		if netSetup != nil {
			netSetup(n)
		}
		res.Net = n
		simnet.Install(n)
		if s := simrt.Cur(); s != nil {
			s.OnAbort(n.Kill)
		}
		disk := simfs.New()
		for name, data := range sp.Files {
			disk.WriteFile(name, data)
		}
		GlobalFs.Set(disk)
		curRec = &recAggr{t0: t0}
		rec := curRec
		prepare(n)
		rps := sp.RPS
		if rps == nil {
			rps = map[string]interface{}{"type": "once", "times": sp.Tokens}
		}
		pool := map[string]interface{}{
			"id":      "p0",
			"ammo":    sp.Ammo,
			"result":  map[string]interface{}{"type": "verif/rec"},
			"gun":     sp.Gun,
			"rps":     rps,
			"startup": map[string]interface{}{"type": "once", "times": sp.Instances},
		}
		var conf struct {
			Pools []engine.InstancePoolConfig `config:"pools"`
		}
		ensureImport()
		netutil.DefaultDNSCache = &netutil.SimpleDNSCache{} // process-wide in pandora: a run must not see the names of the runs before
		if err := config.DecodeAndValidate(map[string]interface{}{"pools": []interface{}{deepCopy(pool)}}, &conf); err != nil {
			res.DecodeErr = err
			return
		}
		logger := zap.NewNop()
		if sp.DebugLog {
			logger = zap.New(zapcore.NewCore(zapcore.NewJSONEncoder(zap.NewProductionEncoderConfig()), zapcore.AddSync(discardWriter{}), zapcore.DebugLevel))
		}
		eng := engine.New(logger, newMetrics(), engine.Config{Pools: conf.Pools})
		ctx, cancel := context.WithCancel(context.Background())
		defer cancel()
		if sp.CancelAt > 0 {
			go func() {
				time.Sleep(sp.CancelAt)
				if res.RunDone {
					return
				}
				res.CancelSeq = simrt.Seq()
				res.CancelT = time.Since(t0)
				cancel()
			}()
		}
		res.RunErr = eng.Run(ctx)
		res.RunAt = time.Since(t0)
		res.RunDone = true
		eng.Wait()
		res.WaitDone = true
		res.Samples = rec.Samples()
	})
	if res.Net != nil {
		res.NetFired = res.Net.FiredSnapshot()
		res.Conns = res.Net.Conns()
		if !res.RunDone && curRec != nil {
			res.Samples = curRec.Samples()
		}
	}
	simnet.Install(nil)
	GlobalFs.Set(simfs.New())
	return res
}

func hdrKey(h map[string][]string, skip map[string]bool) string {
	var ks []string
	for k, v := range h {
		if skip[k] {
			continue
		}
		ks = append(ks, k+"="+strings.Join(v, "|"))
	}
	sort.Strings(ks)
	return strings.Join(ks, "; ")
}

// headers net/http itself adds or manages on the wire
var wireManaged = map[string]bool{"User-Agent": true, "Content-Length": true, "Transfer-Encoding": true, "Accept-Encoding": true, "Connection": true}
