package props

import (
	"bytes"
	"crypto/tls"
	"fmt"
	"strings"
	"sync/atomic"
	"time"

	"verifsim/simnet"
	"verifsim/simrt"
)

// Shared workload of C10 (sample coding) and C19 (robustness): the real uri /
// http-json provider, real http or connect gun and engine fire at a byte-level
// scripted peer whose behaviour per ammo entry comes from the tape.

type peerBehaviour struct {
	Kind   string
	Status int
	Body   int
	// kind redirect: the first arrival is answered 302 + Location: <same URI>&hop=1, the hop with HopStatus. Status is
	// what the sample must carry: HopStatus when the client follows redirects, 302 when it does not
	Redirect  bool
	HopStatus int
	// kind redirect-loop: every arrival is answered 302 + Location: <the same URI>. A client that follows redirects must
	// give up after a bounded number of hops and report the failed exchange; one that does not reports the 302
	Loop bool
	// what the client must see: response headers received? body complete?
	GotResponse bool
	BodyOK      bool
	Timeout     bool
	Retryable   bool // the failure happens before any response byte (net/http may retry idempotent requests on a reused connection)
}

var peerKinds = []string{
	"status", "status", "status", "status", "status-close", "close-no-response", "reset-no-response", "partial-headers-close", "partial-headers-reset",
	"short-body-close", "short-body-reset", "absurd-content-length", "garbage", "bad-chunk", "hang-no-response", "huge-body", "huge-headers", "continue-then-200", "http10-close-delimited",
	"bad-version", "negative-content-length", "redirect-loop", "status-999", "no-reason-phrase", "empty-reply-crlf", "stall-then-200", "chunked-ok", "head-like-no-body-204", "status-304-with-length",
}

func genPeerBehaviour(f *simrt.Stream, faults bool) peerBehaviour {
	b := peerBehaviour{Kind: "status", Status: 200 + f.Draw(400), Body: []int{0, 0, 5, 100, 5000}[f.Draw(5)], GotResponse: true, BodyOK: true}
	if !faults {
		if b.Status == 204 || b.Status == 304 {
			b.Body = 0
		}
		if f.Draw(8) == 0 {
			b.Kind, b.Redirect, b.HopStatus = "redirect", true, []int{200, 200, 404, 500, 201}[f.Draw(5)]
		}
		return b
	}
	if b.Status == 204 || b.Status == 304 {
		b.Body = 0 // bodiless by definition: bytes after the headers would corrupt the next exchange on the connection
	}
	b.Kind = peerKinds[f.Draw(len(peerKinds))]
	switch b.Kind {
	case "status", "status-close", "huge-body", "huge-headers", "http10-close-delimited", "stall-then-200", "chunked-ok":
		if b.Kind != "status" && b.Kind != "status-close" {
			b.Status = 200
		}
		if b.Kind == "huge-body" {
			b.Body = 300_000
		}
	case "continue-then-200":
		b.Status = 200
	case "head-like-no-body-204":
		b.Status, b.Body = 204, 0
	case "status-304-with-length":
		b.Status, b.Body = 304, 0
	case "status-999":
		b.Status, b.Body = 999, 3
	case "no-reason-phrase":
		b.Status = 200
	case "close-no-response", "reset-no-response", "empty-reply-crlf":
		b.GotResponse, b.BodyOK, b.Retryable = false, false, true
	case "bad-version":
		// (net/http accepts any HTTP/x.y version: the response counts as received)
		b.Status, b.Body = 200, 0
	case "partial-headers-close", "partial-headers-reset", "garbage", "negative-content-length":
		b.GotResponse, b.BodyOK = false, false
	case "short-body-close", "short-body-reset", "bad-chunk", "absurd-content-length":
		b.Status, b.GotResponse, b.BodyOK = 200, true, false
	case "hang-no-response":
		b.GotResponse, b.BodyOK, b.Timeout = false, false, true
	case "redirect-loop":
		b.Status, b.Body, b.Loop = 302, 0, true
	}
	return b
}

func (b peerBehaviour) action() rawAction {
	body := bytes.Repeat([]byte("x"), b.Body)
	resp := func(status int, extra string, body []byte) []byte {
		return []byte(fmt.Sprintf("HTTP/1.1 %d Status\r\nContent-Length: %d\r\nContent-Type: text/plain\r\n%s\r\n%s", status, len(body), extra, body))
	}
	switch b.Kind {
	case "status":
		return rawAction{Bytes: resp(b.Status, "", body)}
	case "redirect":
		return rawAction{Bytes: resp(b.HopStatus, "", body)}
	case "redirect-loop":
		return rawAction{Bytes: resp(302, "", nil)} // (the handler adds the Location; this form only tells closesConn)
	case "status-close":
		return rawAction{Bytes: resp(b.Status, "Connection: close\r\n", body), Then: "close"}
	case "close-no-response":
		return rawAction{Then: "close"}
	case "reset-no-response":
		return rawAction{Then: "reset"}
	case "empty-reply-crlf":
		return rawAction{Bytes: []byte("\r\n"), Then: "close"}
	case "partial-headers-close":
		return rawAction{Bytes: []byte("HTTP/1.1 200 OK\r\nContent-Le"), Then: "close"}
	case "partial-headers-reset":
		return rawAction{Bytes: []byte("HTTP/1.1 200 OK\r\nContent-Le"), Then: "reset"}
	case "short-body-close":
		return rawAction{Bytes: []byte("HTTP/1.1 200 OK\r\nContent-Length: 100\r\n\r\n0123456789"), Then: "close"}
	case "absurd-content-length":
		// (a length the header parser accepts and no machine can hold, then ten bytes and a close)
		return rawAction{Bytes: []byte("HTTP/1.1 200 OK\r\nContent-Length: 4611686018427387904\r\n\r\n0123456789"), Then: "close"}
	case "short-body-reset":
		return rawAction{Bytes: []byte("HTTP/1.1 200 OK\r\nContent-Length: 100\r\n\r\n0123456789"), Then: "reset"}
	case "garbage":
		return rawAction{Bytes: []byte("\x00\x01\x02 this is not HTTP \xff\xfe\r\n\r\n"), Then: "close"}
	case "bad-chunk":
		return rawAction{Bytes: []byte("HTTP/1.1 200 OK\r\nTransfer-Encoding: chunked\r\n\r\n5\r\nhello\r\nZZZ\r\nboom\r\n"), Then: "close"}
	case "hang-no-response":
		return rawAction{Then: "hang"}
	case "huge-body":
		return rawAction{Bytes: resp(200, "", body)}
	case "huge-headers":
		var h strings.Builder
		for i := 0; i < 100; i++ {
			fmt.Fprintf(&h, "X-Filler-%d: %s\r\n", i, strings.Repeat("v", 1000))
		}
		return rawAction{Bytes: resp(200, h.String(), body)}
	case "continue-then-200":
		return rawAction{Bytes: append([]byte("HTTP/1.1 100 Continue\r\n\r\n"), resp(200, "", body)...)}
	case "http10-close-delimited":
		return rawAction{Bytes: append([]byte("HTTP/1.0 200 OK\r\n\r\n"), body...), Then: "close"}
	case "bad-version":
		return rawAction{Bytes: []byte("HTTP/9.9 200 OK\r\nContent-Length: 0\r\n\r\n"), Then: "close"}
	case "negative-content-length":
		return rawAction{Bytes: []byte("HTTP/1.1 200 OK\r\nContent-Length: -5\r\n\r\n"), Then: "close"}
	case "status-999":
		return rawAction{Bytes: resp(999, "", body)}
	case "no-reason-phrase":
		return rawAction{Bytes: []byte(fmt.Sprintf("HTTP/1.1 200\r\nContent-Length: %d\r\n\r\n%s", len(body), body))}
	case "stall-then-200":
		return rawAction{Bytes: resp(200, "", body), Delay: 700 * time.Millisecond}
	case "chunked-ok":
		return rawAction{Bytes: []byte("HTTP/1.1 200 OK\r\nTransfer-Encoding: chunked\r\n\r\n5\r\nhello\r\n0\r\n\r\n")}
	case "head-like-no-body-204":
		return rawAction{Bytes: []byte("HTTP/1.1 204 No Content\r\n\r\n")}
	case "status-304-with-length":
		return rawAction{Bytes: []byte("HTTP/1.1 304 Not Modified\r\nContent-Length: 50\r\n\r\n")}
	}
	return rawAction{Bytes: resp(200, "", nil)}
}

type httpFaultSpec struct {
	Entries         int
	Passes          int
	Inst            int
	Gun             string // http | connect
	AutoTag         bool
	URIElems        int
	NoTagOnly       bool
	KeepAlive       bool
	Tags            []string // ammo tag per entry ("" = none)
	Paths           []string
	Methods         []string
	Behaviours      []peerBehaviour
	ConnFaults      string // "", refuse-some, dial-timeout-some
	Format          string
	Lat             time.Duration
	Chunk           int
	FollowRedirects bool // the client's redirect option
	// SSL: the gun's ssl option against a peer that speaks TLS; TLSHang: every third connection the peer accepts never
	// answers the ClientHello, so the handshake runs into the client's tls-handshake-timeout (1 s)
	SSL, TLSHang bool
	// ConnectSSL: the connect gun's connect-ssl option: the tunnel to the proxy itself runs over TLS (the same
	// TLSHang applies to the proxy's handshakes then)
	ConnectSSL bool
	// diagnostics of the gun that read or rewrite the request and the response on the way
	Trace, Dump bool
	AnswLog     string // "", all, warning, error
	DebugLog    bool   // debug-level logger: the http guns log every request and read the answer's body for the log
	// NamedDown: the target is given by name and refuses the connection the gun makes when it is built (the pre-resolve
	// of the dns-cache option fails): the gun keeps the name and every later dial goes through the DNS-caching dialer
	NamedDown bool
}

type httpFaultOutcome struct {
	Spec    httpFaultSpec
	Res     *httpPoolResult
	Seen    []seenReq
	PerEnt  [][]seenReq // arrivals per entry (by marker)
	Expect  []string    // reference tag per entry
	Fired   int         // number of shots the profile allows = entries*passes
	ConnFlt int
	// Runaway: entries whose redirect loop the client followed for more than 64 hops per shot (the peer then answered
	// 200 to end the run; net/http's own limit is 10)
	Runaway []int
}

var hfPaths = []string{"/", "/a", "/my/very/deep/page", "/a/b", "/index.html", "/api/v1/users/42", "/x/"}

func autotagRef(n int, path string) string {
	// first n path elements (docs: /my/very/deep/page?id=23 -> /my/very for uri-elements: 2)
	if path == "" {
		return "" // no path, no path elements: there is no auto-tag
	}
	els := strings.Split(strings.TrimPrefix(path, "/"), "/")
	if len(els) > n {
		els = els[:n]
	}
	return "/" + strings.Join(els, "/")
}

func genHTTPFaultSpec(r *R, faults bool) httpFaultSpec {
	w, f := r.W, r.F
	sp := httpFaultSpec{}
	sp.Entries = 1 + w.Draw(8)
	sp.Passes = 1 + w.Draw(2)
	sp.Inst = 1 + w.Draw(6)
	sp.Gun = []string{"http", "http", "connect"}[w.Draw(3)]
	sp.AutoTag = w.Draw(3) == 0
	sp.URIElems = 1 + w.Draw(3)
	sp.NoTagOnly = w.Draw(2) == 0
	sp.KeepAlive = w.Draw(2) != 0
	sp.Format = []string{"uri", "json"}[w.Draw(2)]
	sp.Lat = []time.Duration{100 * time.Microsecond, 2 * time.Millisecond, 30 * time.Millisecond}[w.Draw(3)]
	sp.Chunk = []int{0, 0, 1, 13, 500}[w.Draw(5)]
	sp.FollowRedirects = w.Bool()
	if sp.Gun != "connect" && w.Draw(4) == 0 {
		sp.SSL = true
		sp.TLSHang = f.Draw(2) == 0
	}
	if sp.Gun == "connect" && w.Draw(3) == 0 {
		sp.ConnectSSL = true
		sp.TLSHang = f.Draw(2) == 0
	}
	if w.Draw(3) == 0 {
		sp.Trace, sp.Dump = w.Bool(), w.Bool()
		sp.AnswLog = []string{"", "all", "warning", "error"}[w.Draw(4)]
		sp.DebugLog = w.Draw(2) == 0
	}
	for i := 0; i < sp.Entries; i++ {
		tag := ""
		if w.Draw(3) != 0 {
			tag = fmt.Sprintf("t%d", i) // unique tags attribute samples to entries; untagged entries are attributed by elimination
		}
		path := hfPaths[w.Draw(len(hfPaths))]
		if sp.Format == "json" && w.Draw(8) == 0 {
			// an http/json entry whose uri has no path at all ("?n=3"): it is sent as "/?n=3"; with nothing to derive an
			// auto-tag from, the untagged entry is reported as __EMPTY__
			path, tag = "", ""
		}
		sp.Tags = append(sp.Tags, tag)
		sp.Paths = append(sp.Paths, path)
		m := "GET"
		if sp.Format == "json" {
			m = []string{"GET", "POST", "PUT", "DELETE"}[w.Draw(4)]
		}
		sp.Methods = append(sp.Methods, m)
		bh := genPeerBehaviour(f, faults)
		if bh.Redirect {
			bh.Status = 302
			if sp.FollowRedirects {
				bh.Status = bh.HopStatus
			}
		}
		if bh.Loop && sp.FollowRedirects {
			// the client gives up after its hop limit: a failed exchange (no final response)
			bh.GotResponse, bh.BodyOK = false, false
		}
		sp.Behaviours = append(sp.Behaviours, bh)
	}
	if faults && sp.Gun == "http" && !sp.SSL && f.Draw(8) == 0 {
		sp.NamedDown = true
	}
	if faults {
		sp.ConnFaults = []string{"", "", "", "refuse-some", "dial-timeout-some", "partition-short", "partition-long"}[f.Draw(7)]
		if sp.Gun == "connect" && f.Draw(3) == 0 {
			// the proxy misbehaves while the tunnel is being set up (every third CONNECT)
			sp.ConnFaults = []string{"connect-502-some", "connect-extra-data-some", "connect-close-some", "connect-garbage-some", "connect-hang-some"}[f.Draw(5)]
		}
	}
	return sp
}

func (sp httpFaultSpec) describe() map[string]any {
	var bs []string
	for _, b := range sp.Behaviours {
		bs = append(bs, fmt.Sprintf("%s/%d", b.Kind, b.Status))
	}
	return map[string]any{"entries": sp.Entries, "passes": sp.Passes, "instances": sp.Inst, "gun": sp.Gun, "auto_tag": sp.AutoTag, "uri_elements": sp.URIElems, "no_tag_only": sp.NoTagOnly,
		"keep_alive": sp.KeepAlive, "tags": sp.Tags, "paths": sp.Paths, "methods": sp.Methods, "peer": bs, "conn_faults": sp.ConnFaults, "format": sp.Format, "latency": sp.Lat.String(), "chunk": sp.Chunk, "follow_redirects": sp.FollowRedirects, "ssl": sp.SSL, "connect_ssl": sp.ConnectSSL, "tls_hang_every_third_conn": sp.TLSHang, "named_target_down_at_start": sp.NamedDown, "httptrace": fmt.Sprintf("trace=%v dump=%v", sp.Trace, sp.Dump), "answlog": sp.AnswLog, "debug_log": sp.DebugLog}
}

func runHTTPFaults(r *R, sp httpFaultSpec) *httpFaultOutcome {
	out := &httpFaultOutcome{Spec: sp, Fired: sp.Entries * sp.Passes}
	var b strings.Builder
	for i := 0; i < sp.Entries; i++ {
		uri := fmt.Sprintf("%s?n=%d", sp.Paths[i], i)
		if sp.Format == "uri" {
			b.WriteString(uri)
			if sp.Tags[i] != "" {
				b.WriteString(" " + sp.Tags[i])
			}
			b.WriteString("\n")
		} else {
			fmt.Fprintf(&b, "{\"tag\": %q, \"uri\": %q, \"method\": %q, \"host\": \"example.com\"}\n", sp.Tags[i], uri, sp.Methods[i])
		}
		tag := sp.Tags[i]
		if sp.AutoTag && (!sp.NoTagOnly || tag == "") {
			at := autotagRef(sp.URIElems, sp.Paths[i])
			if tag == "" {
				tag = at
			} else {
				tag = tag + "|" + at
			}
		}
		if tag == "" {
			tag = "__EMPTY__"
		}
		out.Expect = append(out.Expect, tag)
	}
	typ := map[string]string{"uri": "uri", "json": "http/json"}[sp.Format]
	ammo := map[string]interface{}{"type": typ, "file": "/ammo/ammo.txt", "passes": sp.Passes}
	target := "10.0.0.7:8080"
	if sp.NamedDown {
		target = "tgt.example:8080"
		r.Note("named-target-down-when-the-gun-is-built")
	}
	gun := map[string]interface{}{"type": sp.Gun, "target": target, "disable-keep-alives": !sp.KeepAlive, "response-header-timeout": "2s",
		"dial":     map[string]interface{}{"timeout": "1s"},
		"auto-tag": map[string]interface{}{"enabled": sp.AutoTag, "uri-elements": sp.URIElems, "no-tag-only": sp.NoTagOnly}}
	gun["redirect"] = sp.FollowRedirects
	if sp.SSL {
		gun["ssl"] = true
		gun["tls-handshake-timeout"] = "1s"
	}
	if sp.ConnectSSL {
		gun["connect-ssl"] = true
	}
	if sp.Trace || sp.Dump {
		gun["httptrace"] = map[string]interface{}{"trace": sp.Trace, "dump": sp.Dump}
	}
	if sp.AnswLog != "" {
		// (the answer log is a real file opened with os.Create: the null device)
		gun["answlog"] = map[string]interface{}{"enabled": true, "path": "/dev/null", "filter": sp.AnswLog}
	}
	var peer *rawPeer
	var proxyFaults int32
	arrivals := make([]int, sp.Entries)
	out.Res = runHTTPPool(r, httpPoolSpec{Ammo: ammo, Gun: gun, Instances: sp.Inst, Tokens: out.Fired + 2, DebugLog: sp.DebugLog, Files: map[string][]byte{"/ammo/ammo.txt": []byte(b.String())}, Horizon: 2 * time.Hour},
		func(nw *simnet.Net) {
			nw.Latency = sp.Lat
			switch sp.ConnFaults {
			case "partition-short":
				// all traffic is held for 300 ms and then delivered (shorter than every client timeout)
				nw.PartitionFrom, nw.PartitionTo = time.Now().Add(20*time.Millisecond), time.Now().Add(320*time.Millisecond)
			case "partition-long":
				// ... for 5 s: longer than the response-header and dial timeouts
				nw.PartitionFrom, nw.PartitionTo = time.Now().Add(20*time.Millisecond), time.Now().Add(5020*time.Millisecond)
			}
			nw.Plan = func(idx int, addr string) simnet.ConnPlan {
				p := simnet.NoPlan()
				p.ChunkC2S, p.ChunkS2C = sp.Chunk, sp.Chunk*2
				if sp.NamedDown && idx == 0 {
					p.Refuse = true // (the connect of netutil.LookupReachable while the gun is configured)
				}
				switch sp.ConnFaults {
				case "refuse-some":
					p.Refuse = idx%3 == 1
				case "dial-timeout-some":
					if idx%4 == 2 {
						p.DialDelay = 5 * time.Second
					}
				}
				return p
			}
		},
		func(nw *simnet.Net) {
			defer func() {
				if (sp.SSL || sp.ConnectSSL) && peer != nil {
					cert := testCert()
					peer.TLS = &tls.Config{Certificates: []tls.Certificate{cert}, NextProtos: []string{"http/1.1"}}
					if sp.TLSHang {
						peer.HangTLS = func(k int) bool { return k%3 == 1 }
					}
				}
			}()
			peer = startRawPeer(nw, target, func(n int, s *seenReq) rawAction {
				if s.Method == "CONNECT" {
					if s.N%3 == 1 && strings.HasPrefix(sp.ConnFaults, "connect-") {
						atomic.AddInt32(&proxyFaults, 1) // nosim
						switch sp.ConnFaults {
						case "connect-502-some":
							return rawAction{Bytes: []byte("HTTP/1.1 502 Bad Gateway\r\nContent-Length: 3\r\n\r\nbad"), Then: "close"}
						case "connect-extra-data-some":
							return rawAction{Bytes: []byte("HTTP/1.1 200 Connection established\r\n\r\nSSH-2.0-OpenSSH_9.2\r\n"), Then: "hang"}
						case "connect-close-some":
							return rawAction{Then: "close"}
						case "connect-garbage-some":
							return rawAction{Bytes: []byte("\x16\x03\x01\x00\x02\x02\x28 not http at all\r\n\r\n"), Then: "close"}
						case "connect-hang-some":
							return rawAction{Then: "hang"}
						}
					}
					return rawAction{Bytes: []byte("HTTP/1.1 200 Connection established\r\n\r\n")}
				}
				i := markerOf(s.URI)
				if i < 0 || i >= sp.Entries {
					return rawAction{Bytes: []byte("HTTP/1.1 400 Bad Request\r\nContent-Length: 0\r\n\r\n")}
				}
				if bh := sp.Behaviours[i]; bh.Redirect && !strings.Contains(s.URI, "hop=1") {
					return rawAction{Kind: "respond", Bytes: []byte("HTTP/1.1 302 Found\r\nLocation: " + s.URI + "&hop=1\r\nContent-Length: 0\r\n\r\n")}
				}
				if sp.Behaviours[i].Loop {
					arrivals[i]++
					if arrivals[i] > 64*sp.Passes {
						if arrivals[i] == 64*sp.Passes+1 {
							out.Runaway = append(out.Runaway, i)
						}
						return rawAction{Kind: "respond", Bytes: []byte("HTTP/1.1 200 OK\r\nContent-Length: 0\r\n\r\n")}
					}
					return rawAction{Kind: "respond", Bytes: []byte("HTTP/1.1 302 Found\r\nLocation: " + s.URI + "\r\nContent-Length: 0\r\n\r\n")}
				}
				return sp.Behaviours[i].action()
			})
		})
	_ = arrivals
	if peer != nil {
		out.Seen = peer.Seen()
	}
	out.PerEnt = make([][]seenReq, sp.Entries)
	for _, s := range out.Seen {
		if s.Method == "CONNECT" {
			continue
		}
		if i := markerOf(s.URI); i >= 0 && i < sp.Entries {
			out.PerEnt[i] = append(out.PerEnt[i], s)
		}
	}
	if out.Res.NetFired != nil {
		out.ConnFlt = out.Res.NetFired["connect-refused"] + out.Res.NetFired["connect-timeout"]
		for k, v := range out.Res.NetFired {
			for i := 0; i < v; i++ {
				r.Fault("net:"+k, true)
			}
		}
	}
	for i := 0; i < int(proxyFaults); i++ {
		r.Fault("proxy:"+sp.ConnFaults, true)
		out.ConnFlt++
	}
	for _, bh := range sp.Behaviours {
		if bh.Kind != "status" {
			r.Fault("peer:"+bh.Kind, len(out.Seen) > 0)
		}
	}
	return out
}

func markerOf(uri string) int {
	i := strings.LastIndex(uri, "n=")
	if i < 0 {
		return -1
	}
	n := 0
	j := i + 2
	if j >= len(uri) || uri[j] < '0' || uri[j] > '9' {
		return -1
	}
	for ; j < len(uri) && uri[j] >= '0' && uri[j] <= '9'; j++ {
		n = n*10 + int(uri[j]-'0')
	}
	return n
}

// closesConn: after this behaviour the peer closes (or resets) the connection, so a later request that the
// client sends over the same kept-alive connection may never reach the peer.
func (b peerBehaviour) closesConn() bool {
	a := b.action()
	return a.Then == "close" || a.Then == "reset" || a.Then == "hang"
}
