package props

import (
	"bytes"
	"context"
	"encoding/json"
	"fmt"
	"io"
	"net/http"
	"net/textproto"
	"sort"
	"strings"
	"time"

	grpcimport "github.com/yandex/pandora/components/grpc/import"
	phttpimport "github.com/yandex/pandora/components/phttp/import"
	grpcammo "github.com/yandex/pandora/components/providers/grpc"
	"github.com/yandex/pandora/core"
	"github.com/yandex/pandora/core/aggregator/netsample"
	"github.com/yandex/pandora/core/config"
	"go.uber.org/zap"

	"verifsim/simfs"
	"verifsim/simrt"
)

func init() {
	prev := importExtra
	importExtra = func() {
		prev()
		phttpimport.Import(GlobalFs)
		grpcimport.Import(GlobalFs)
	}
}

// ---- abstract requests and their independent renderers (written from docs/eng/providers.md) ----

type absReq struct {
	Method string
	URI    string // path and query
	Body   []byte
	Tag    string
	Host   string      // "" = none
	Hdr    [][2]string // per-entry headers (raw, http/json); keys in any spelling, unique per entry up to case
}

// absItem is one element of an ammo file: a request or (uri / uripost) an in-file header line.
type absItem struct {
	Req *absReq
	HK  string // header line key
	HV  string
}

type layout struct {
	CRLF       bool
	BlankLines int  // 0: none; k>0: a blank line before every k-th line group
	Pad        int  // 0 none, 1 leading spaces, 2 trailing spaces/tabs, 3 both
	NoFinalNL  bool // the file does not end with a newline
	JSONMode   int  // 0: one object per line, 1: pretty-printed objects, 2: array, 3: pretty array
	RawLF      bool // raw requests use bare LF line ends inside the request
}

func (l layout) String() string {
	return fmt.Sprintf("crlf=%v blank=%d pad=%d nofinalnl=%v json=%d rawlf=%v", l.CRLF, l.BlankLines, l.Pad, l.NoFinalNL, l.JSONMode, l.RawLF)
}

var (
	genMethods = []string{"GET", "POST", "PUT", "DELETE", "PATCH", "OPTIONS", "HEAD"}
	genPaths   = []string{"/", "/a", "/a/b", "/index.html", "/api/v1/users/42", "/x%20y", "/p.q-r_s~t", "/buy/", "/a%2Fb"}
	genQueries = []string{"", "", "?x=1", "?a=1&b=2", "?q=%5Bz%5D", "?drg", "?rt=0&station_to=7&station_from=9", "?k=v;w=u", "?e=", "?list=[1,2]"}
	genTags    = []string{"", "tag1", "tag2", "good", "bad", "two words", "a b c", "__EMPTY__", "tag#1", "T"}
	genHosts   = []string{"", "example.com", "xxx.tanks.example.com", "h.local:8080"}
	genHdrKeys = []string{"Accept", "User-Agent", "Cookie", "X-Req-Id", "Content-Type", "Authorization", "X-A", "Connection"}
	genHdrVals = []string{"*/*", "Pandora", "None", "test", "application/json", "Bearer abc.def", "a, b;c=d", "1", "x: y", "[bracket]"}
	genBodies  = [][]byte{nil, []byte("hello"), []byte("a\nb\n"), []byte("[Host: evil]\n"), []byte("{\"k\": [1, 2]}"), []byte("\n"), []byte("x"), []byte("5 /fake tag\nabcde"),
		[]byte("line1\r\nline2"), {0, 1, 2, 255, 254, '\n', 0}, []byte("  padded  "), []byte("\n\n\n"), []byte("tail-without-newline")}
	genTextBodies = []string{"", "hello", "a\nb\n", "[Host: evil]\n", "{\"k\": [1, 2]}", "\n", "x", "quote\"back\\slash", "юникод ☃", "line1\r\nline2", "}{", "  padded  "}
)

func genReq(w *simrt.Stream, format string, i int) *absReq {
	q := &absReq{}
	// every URI is unique within the file so that each delivered request is attributable to one entry
	q.URI = genPaths[w.Draw(len(genPaths))] + genQueries[w.Draw(len(genQueries))]
	if strings.Contains(q.URI, "?") {
		q.URI += fmt.Sprintf("&n=%d", i)
	} else {
		q.URI += fmt.Sprintf("?n=%d", i)
	}
	if w.Draw(24) == 0 {
		// a line longer than any default reader buffer (4096) - and, one time in three, than two of them
		q.URI += "&long=" + strings.Repeat("q", []int{4100, 4500, 9000}[w.Draw(3)])
	}
	q.Tag = genTags[w.Draw(len(genTags))]
	switch format {
	case "uri":
		q.Method = "GET"
	case "uripost":
		q.Method = "POST"
		q.Body = genBodies[w.Draw(len(genBodies))]
	case "raw":
		q.Method = genMethods[w.Draw(len(genMethods))]
		if q.Method != "GET" && q.Method != "HEAD" {
			q.Body = genBodies[w.Draw(len(genBodies))]
		}
		q.Host = genHosts[1+w.Draw(len(genHosts)-1)]
		if strings.Contains(q.Tag, "__") && w.Draw(2) == 0 {
			q.Tag = ""
		}
		if w.Draw(10) == 0 {
			// the tag of a raw entry is the rest of the size line, blanks included
			q.Tag = []string{"cart  checkout", "a\tb", "x   y z"}[w.Draw(3)]
		}
	default: // json
		q.Method = genMethods[w.Draw(len(genMethods))]
		if w.Draw(10) == 0 {
			// method tokens are case-sensitive (RFC 9110): an extension method is sent as written
			q.Method = []string{"Purge", "m-search", "Report"}[w.Draw(3)]
			q.Body = nil
		}
		if q.Method != "GET" && q.Method != "HEAD" {
			q.Body = []byte(genTextBodies[w.Draw(len(genTextBodies))])
			if len(q.Body) == 0 {
				q.Body = nil
			}
		}
		q.Host = genHosts[w.Draw(len(genHosts))]
	}
	if format == "raw" || format == "json" {
		n := w.Draw(4)
		used := map[string]bool{}
		for k := 0; k < n; k++ {
			key := genHdrKeys[w.Draw(len(genHdrKeys))]
			if used[key] || (format == "raw" && key == "Connection") {
				continue
			}
			used[key] = true
			if w.Draw(4) == 0 {
				// header names are case-insensitive: the file may spell them any way
				key = []string{strings.ToLower(key), strings.ToUpper(key)}[w.Draw(2)]
			}
			q.Hdr = append(q.Hdr, [2]string{key, genHdrVals[w.Draw(len(genHdrVals))]})
		}
	}
	return q
}

// genFile draws a list of 1..max entries (plus in-file header lines for uri/uripost).
func genFile(w *simrt.Stream, format string, max int) []absItem {
	n := 1 + w.Draw(max)
	var items []absItem
	for i := 0; i < n; i++ {
		if (format == "uri" || format == "uripost") && w.Draw(3) == 0 {
			k := genHdrKeys[w.Draw(len(genHdrKeys))]
			if w.Draw(6) == 0 {
				k = "Host"
			}
			v := genHdrVals[w.Draw(len(genHdrVals))]
			if k == "Host" {
				v = genHosts[1+w.Draw(len(genHosts)-1)]
			} else if w.Draw(8) == 0 {
				v = "" // `[Name:]` - the file defines the header, with an empty value (a way to suppress a default)
			}
			items = append(items, absItem{HK: k, HV: v})
		}
		items = append(items, absItem{Req: genReq(w, format, i)})
	}
	return items
}

func genLayout(w *simrt.Stream) layout {
	return layout{CRLF: w.Draw(4) == 0, BlankLines: w.Draw(4), Pad: w.Draw(4), NoFinalNL: w.Draw(3) == 0, JSONMode: w.Draw(4), RawLF: w.Draw(3) == 0}
}

func pad(s string, l layout, k int) string {
	switch l.Pad {
	case 1:
		return strings.Repeat(" ", 1+k%3) + s
	case 2:
		return s + []string{" ", "\t", "  \t "}[k%3]
	case 3:
		return " " + s + " "
	}
	return s
}

// renderFile renders the items into the given format.
func renderFile(format string, items []absItem, l layout) []byte {
	nl := "\n"
	if l.CRLF {
		nl = "\r\n"
	}
	var b bytes.Buffer
	blank := func(k int) {
		if l.BlankLines > 0 && k%l.BlankLines == 0 {
			b.WriteString(nl)
		}
	}
	switch format {
	case "uri":
		for k, it := range items {
			blank(k)
			if it.Req == nil {
				b.WriteString(pad(fmt.Sprintf("[%s: %s]", it.HK, it.HV), l, k) + nl)
				continue
			}
			line := it.Req.URI
			if it.Req.Tag != "" {
				line += " " + it.Req.Tag
			}
			b.WriteString(pad(line, l, k) + nl)
		}
	case "uripost":
		for k, it := range items {
			blank(k)
			if it.Req == nil {
				b.WriteString(pad(fmt.Sprintf("[%s: %s]", it.HK, it.HV), l, k) + nl)
				continue
			}
			line := fmt.Sprintf("%d %s", len(it.Req.Body), it.Req.URI)
			if it.Req.Tag != "" {
				line += " " + it.Req.Tag
			}
			b.WriteString(pad(line, l, k) + nl)
			b.Write(it.Req.Body)
			b.WriteString(nl)
		}
	case "raw":
		for k, it := range items {
			blank(k)
			q := it.Req
			rnl := "\r\n"
			if l.RawLF {
				rnl = "\n"
			}
			var rb bytes.Buffer
			fmt.Fprintf(&rb, "%s %s HTTP/1.1%s", q.Method, q.URI, rnl)
			fmt.Fprintf(&rb, "Host: %s%s", q.Host, rnl)
			for _, h := range q.Hdr {
				fmt.Fprintf(&rb, "%s: %s%s", h[0], h[1], rnl)
			}
			if q.Body != nil {
				fmt.Fprintf(&rb, "Content-Length: %d%s", len(q.Body), rnl)
			}
			rb.WriteString(rnl)
			rb.Write(q.Body)
			line := fmt.Sprintf("%d", rb.Len())
			if q.Tag != "" {
				line += " " + q.Tag
			}
			b.WriteString(pad(line, layout{Pad: l.Pad & 2}, k) + nl)
			b.Write(rb.Bytes())
			b.WriteString(nl)
		}
	default: // json
		type ent struct {
			Tag     string            `json:"tag"`
			URI     string            `json:"uri"`
			Method  string            `json:"method"`
			Headers map[string]string `json:"headers,omitempty"`
			Host    string            `json:"host,omitempty"`
			Body    string            `json:"body,omitempty"`
		}
		var ents []ent
		for _, it := range items {
			q := it.Req
			e := ent{Tag: q.Tag, URI: q.URI, Method: q.Method, Host: q.Host, Body: string(q.Body)}
			if len(q.Hdr) > 0 {
				e.Headers = map[string]string{}
				for _, h := range q.Hdr {
					e.Headers[h[0]] = h[1]
				}
			}
			// one entry in three that names a host carries it as a Host header instead of the `host` field (an entry
			// decides by its own text, so that every pass and every layout renders it the same way)
			if _, has := e.Headers["Host"]; q.Host != "" && !has && (len(q.URI)+len(q.Tag))%3 == 0 {
				if e.Headers == nil {
					e.Headers = map[string]string{}
				}
				hk := "Host"
				if len(q.URI)%2 == 0 {
					hk = "host"
				}
				if _, has2 := e.Headers[hk]; !has2 {
					e.Headers[hk] = q.Host
					e.Host = ""
				}
			}
			ents = append(ents, e)
		}
		switch l.JSONMode {
		case 2:
			jb, _ := json.Marshal(ents)
			b.Write(jb)
			b.WriteString(nl)
		case 3:
			jb, _ := json.MarshalIndent(ents, "", "  ")
			b.Write(jb)
			b.WriteString(nl)
		case 1:
			for k, e := range ents {
				blank(k)
				jb, _ := json.MarshalIndent(e, "", "\t")
				b.Write(jb)
				b.WriteString(nl)
			}
		default:
			for k, e := range ents {
				blank(k)
				jb, _ := json.Marshal(e)
				b.WriteString(pad(string(jb), l, k) + nl)
			}
		}
	}
	out := b.Bytes()
	if l.NoFinalNL && bytes.HasSuffix(out, []byte(nl)) {
		// drop exactly the line terminator written after the last entry (bytes that belong to a body or
		// to a raw request stay)
		out = out[:len(out)-len(nl)]
	}
	return out
}

// gotReq is what a consumer (a gun) sees of one acquired HTTP ammo.
type gotReq struct {
	Method string
	URI    string
	Host   string
	Hdr    map[string][]string
	Body   []byte
	Tag    string
	ID     uint64
	Seq    uint64 // global event sequence at Acquire return
	Cons   int
	Extra  string // non-HTTP ammo: a rendering of the item
}

func (g gotReq) key() string {
	var hk []string
	for k, v := range g.Hdr {
		hk = append(hk, k+"="+strings.Join(v, "|"))
	}
	sort.Strings(hk)
	return fmt.Sprintf("%s %s host=%q tag=%q hdr=%v body=%q %s", g.Method, g.URI, g.Host, g.Tag, hk, g.Body, g.Extra)
}

type httpGunAmmo interface {
	Request() (*http.Request, *netsample.Sample)
	ID() uint64
}

// extractHTTP reads an acquired HTTP ammo the way the HTTP gun does.
func extractHTTP(a core.Ammo) (gotReq, error) {
	ha, ok := a.(httpGunAmmo)
	if !ok {
		return gotReq{}, fmt.Errorf("acquired ammo has type %T, not an HTTP gun ammo", a)
	}
	req, sample := ha.Request()
	g := gotReq{Method: req.Method, URI: req.URL.RequestURI(), Host: req.Host, Hdr: map[string][]string{}, Tag: sample.Tags(), ID: ha.ID()}
	for k, v := range req.Header {
		g.Hdr[k] = append([]string(nil), v...)
	}
	if req.Body != nil {
		b, err := io.ReadAll(req.Body)
		if err != nil {
			return g, fmt.Errorf("reading the request body: %v", err)
		}
		g.Body = b
	}
	return g, nil
}

func extractGRPC(a core.Ammo) (gotReq, error) {
	ga, ok := a.(*grpcammo.Ammo)
	if !ok {
		return gotReq{}, fmt.Errorf("acquired ammo has type %T, not *grpc.Ammo", a)
	}
	mb, _ := json.Marshal(ga.Metadata)
	pb, _ := json.Marshal(ga.Payload)
	return gotReq{Tag: ga.Tag, ID: ga.ID(), Extra: fmt.Sprintf("call=%s md=%s payload=%s invalid=%v", ga.Call, mb, pb, ga.IsInvalid())}, nil
}

func extractAny(a core.Ammo) (gotReq, error) {
	if _, ok := a.(httpGunAmmo); ok {
		return extractHTTP(a)
	}
	if _, ok := a.(*grpcammo.Ammo); ok {
		return extractGRPC(a)
	}
	type named interface{ GetName() string }
	switch x := a.(type) {
	case map[string]interface{}:
		jb, _ := json.Marshal(x)
		return gotReq{Extra: string(jb)}, nil
	case *map[string]interface{}:
		jb, _ := json.Marshal(*x)
		return gotReq{Extra: string(jb)}, nil
	}
	return gotReq{Extra: fmt.Sprintf("%T", a)}, nil
}

// expectedHTTP is the reference interpretation of one pass over the items.
func expectedHTTP(format string, items []absItem) []gotReq {
	var out []gotReq
	common := map[string]string{} // canonical key -> value, set by in-file header lines so far
	for _, it := range items {
		if it.Req == nil {
			common[textproto.CanonicalMIMEHeaderKey(it.HK)] = it.HV
			continue
		}
		q := it.Req
		g := gotReq{Method: q.Method, URI: q.URI, Host: q.Host, Tag: q.Tag, Hdr: map[string][]string{}, Body: q.Body}
		for k, v := range common {
			if k == "Host" {
				g.Host = v
				continue
			}
			g.Hdr[k] = []string{v}
		}
		for _, h := range q.Hdr {
			g.Hdr[textproto.CanonicalMIMEHeaderKey(h[0])] = []string{h[1]}
		}
		if format == "raw" && q.Body != nil {
			g.Hdr["Content-Length"] = []string{fmt.Sprint(len(q.Body))}
		}
		if len(g.Body) == 0 {
			g.Body = nil
		}
		out = append(out, g)
	}
	return out
}

func sameReq(a, b gotReq) bool {
	if a.Method != b.Method || a.URI != b.URI || a.Host != b.Host || a.Tag != b.Tag || !bytes.Equal(a.Body, b.Body) || len(a.Hdr) != len(b.Hdr) {
		return false
	}
	for k, v := range a.Hdr {
		w := b.Hdr[k]
		if len(v) != len(w) {
			return false
		}
		for i := range v {
			if v[i] != w[i] {
				return false
			}
		}
	}
	return true
}

// ---- running a provider under the simulator ----

func decodeProvider(conf map[string]interface{}) (core.Provider, error) {
	ensureImport()
	var c struct {
		P core.Provider `config:"p"`
	}
	err := config.DecodeAndValidate(map[string]interface{}{"p": deepCopy(conf)}, &c)
	return c.P, err
}

type provRun struct {
	Conf        map[string]interface{}
	Files       map[string][]byte
	Plans       map[string]simfs.Plan
	Consumers   int
	CancelAfter int // >0: the run context is cancelled once this many items were acquired
	Stalls      bool
	Extract     func(core.Ammo) (gotReq, error)
	Horizon     time.Duration
	NoRelease   bool
}

type provOut struct {
	NewErr         error
	RunErr         error
	RunDone        bool
	RunAt          time.Duration
	PerCons        [][]gotReq
	All            []gotReq // in order of Acquire return
	EndSeen        []bool   // consumer saw ok=false
	EndAt          []time.Duration
	ExtractEr      []string
	Cancelled      bool
	CancelledAtEnd bool // the consumers were done before Run returned: the harness cancelled the context as the engine does
	CancelAt       time.Duration
	LastGotAt      time.Duration
	Sim            simrt.Result
	DiskFired      map[string]int
	BadAmmo        int // Acquire returned a non-nil ammo with ok=false (request build failure)
}

// runProvider builds the provider from its configuration (real config decode and
// plugin factories), runs Provider.Run as one task and the consumers as others.
func runProvider(r *R, pr provRun, report bool) *provOut {
	out := &provOut{}
	if pr.Horizon == 0 {
		pr.Horizon = 30 * time.Minute
	}
	if pr.Extract == nil {
		pr.Extract = extractAny
	}
	out.Sim = r.Sim(simrt.Config{Horizon: pr.Horizon, Grace: time.Second, Stalls: pr.Stalls, StallMax: time.Second, MaxSteps: 200000, TickLimit: 300_000}, report, func() {
		t0 := time.Now()
		disk := simfs.New()
		for name, data := range pr.Files {
			disk.WriteFile(name, data)
		}
		for name, p := range pr.Plans {
			pp := p
			disk.Plans[name] = &pp
		}
		GlobalFs.Set(disk)
		defer func() { out.DiskFired = disk.Fired }()
		p, err := decodeProvider(pr.Conf)
		if err != nil {
			out.NewErr = err
			return
		}
		// (the harness's own cancel is not a scheduling point: under a priority schedule the consumer that is to cancel an
		// unbounded provider could be starved for ever while provider and consumers keep each other runnable)
		ctx, cancel := context.WithCancel(context.Background()) // nosim
		defer cancel()
		runDone := make(chan struct{})
		go func() {
			out.RunErr = p.Run(ctx, core.ProviderDeps{Log: zap.NewNop(), PoolID: "pool0"})
			out.RunAt = time.Since(t0)
			out.RunDone = true
			close(runDone)
		}()
		out.PerCons = make([][]gotReq, pr.Consumers)
		out.EndSeen = make([]bool, pr.Consumers)
		out.EndAt = make([]time.Duration, pr.Consumers)
		consDone := make(chan struct{}, pr.Consumers)
		total := 0
		for ci := 0; ci < pr.Consumers; ci++ {
			ci := ci
			go func() {
				defer func() { consDone <- struct{}{} }()
				for {
					a, ok := p.Acquire()
					if !ok {
						if _, isHTTP := a.(interface{ Tag() string }); isHTTP && a != nil {
							// the HTTP provider hands back the decoded ammo with ok=false when it cannot build the request
							out.BadAmmo++
						}
						out.EndSeen[ci] = true
						out.EndAt[ci] = time.Since(t0)
						return
					}
					g, err := pr.Extract(a)
					if err != nil {
						out.ExtractEr = append(out.ExtractEr, err.Error())
					}
					g.Seq, g.Cons = simrt.Seq(), ci
					out.PerCons[ci] = append(out.PerCons[ci], g)
					out.All = append(out.All, g)
					out.LastGotAt = time.Since(t0)
					total++
					if pr.CancelAfter > 0 && total == pr.CancelAfter {
						out.Cancelled = true
						out.CancelAt = time.Since(t0)
						cancel()
					}
					if !pr.NoRelease {
						p.Release(a)
					}
				}
			}()
		}
		for i := 0; i < pr.Consumers; i++ {
			<-consDone
		}
		// every consumer has seen the end of ammo: like the engine once all instances have finished,
		// cancel the provider's context and wait for Run
		if !out.RunDone {
			out.CancelledAtEnd = true
			cancel()
		}
		<-runDone
	})
	GlobalFs.Set(simfs.New())
	return out
}

// subsequenceOf reports whether xs is a subsequence of the cyclic repetition of pass (same requests in the same order).
func subsequenceOf(xs []gotReq, ref []gotReq) bool {
	j := 0
	for _, x := range xs {
		for j < len(ref) && !sameReq(x, ref[j]) {
			j++
		}
		if j == len(ref) {
			return false
		}
		j++
	}
	return true
}

func minBound(limit, passes, entries int) int {
	b := -1
	if limit > 0 {
		b = limit
	}
	if passes > 0 && (b < 0 || passes*entries < b) {
		b = passes * entries
	}
	return b
}

func clipB(b []byte) string {
	if len(b) > 300 {
		return fmt.Sprintf("%q...(%d bytes)", b[:300], len(b))
	}
	return fmt.Sprintf("%q", b)
}

// faultOffset draws the byte offset of an injected read error: a third uniformly over the file, a third exactly at the
// start of a line (nothing of the next entry has been read: only the error itself tells), a third one to three bytes
// into a line (inside a size field, a header name, a method).
func faultOffset(f *simrt.Stream, file []byte) int64 {
	at := f.Draw(len(file))
	mode := f.Draw(3)
	if mode == 0 {
		return int64(at)
	}
	var starts []int
	for i, c := range file {
		if c == '\n' && i+1 < len(file) {
			starts = append(starts, i+1)
		}
	}
	if len(starts) == 0 {
		return int64(at)
	}
	at = starts[f.Draw(len(starts))]
	if mode == 2 {
		at = min(at+1+f.Draw(3), len(file)-1)
	}
	return int64(at)
}
