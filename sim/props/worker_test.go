package props

import (
	"flag"
	"testing"
	"time"
)

var (
	fProp     = flag.String("prop", "", "property id")
	fTier     = flag.String("tier", "quick", "tier")
	fBase     = flag.Uint64("base", 1, "base seed")
	fFrom     = flag.Int("from", 0, "first run index")
	fCount    = flag.Int("count", 1, "number of runs")
	fOut      = flag.String("out", "", "output file")
	fSites    = flag.String("sites", "", "site table")
	fReplay   = flag.String("replay", "", "replay file")
	fMinimise = flag.String("minimise", "", "replay file to minimise")
	fTrace    = flag.Bool("trace", false, "emit full decision traces per run")
	fDeadline = flag.Duration("deadline", 0, "wall-clock budget")
	fMode     = flag.String("mode", "", "sub-mode")
)

func TestWorker(t *testing.T) {
	if *fProp == "" && *fReplay == "" && *fMinimise == "" {
		t.Skip("worker entry point; run through vcheck")
	}
	Worker(t, WorkerArgs{Prop: *fProp, Tier: *fTier, Base: *fBase, From: *fFrom, Count: *fCount, Out: *fOut, Sites: *fSites,
		Replay: *fReplay, Minimise: *fMinimise, Trace: *fTrace, Deadline: time.Duration(*fDeadline), Mode: *fMode})
}
