// Package ref holds the executable reference models the oracles compare pandora
// against. Nothing here imports pandora; every formula is taken from the
// documented definitions (docs/eng/load-profile.md, the property statements),
// evaluated in arbitrary precision on the float64 values actually configured.
package ref

import (
	"fmt"
	"math/big"
	"time"
)

// Profile is a configured load profile.
type Profile struct {
	Kind     string        `json:"kind"` // const | line | step | once
	Ops      float64       `json:"ops,omitempty"`
	From, To float64       `json:"-"`
	Step     int64         `json:"step,omitempty"`
	Times    int64         `json:"times,omitempty"`
	Dur      time.Duration `json:"dur_ns,omitempty"`
	Desc     string        `json:"desc"`
}

// Part is a stretch with a rate going linearly from A to B over D, or an
// instantaneous release of Once operations.
type Part struct {
	A, B   float64
	D      time.Duration
	Once   int64
	IsOnce bool
}

// Parts expands a profile into its consecutive parts (step = one const per level).
func (p Profile) Parts() []Part {
	switch p.Kind {
	case "const":
		return []Part{{A: p.Ops, B: p.Ops, D: p.Dur}}
	case "line":
		return []Part{{A: p.From, B: p.To, D: p.Dur}}
	case "once":
		return []Part{{Once: p.Times, IsOnce: true}}
	case "step":
		var out []Part
		for lv := p.From; lv <= p.To; lv += float64(p.Step) {
			out = append(out, Part{A: lv, B: lv, D: p.Dur})
		}
		return out
	}
	panic("unknown profile kind " + p.Kind)
}

const prec = 256

func bf(x float64) *big.Float { return new(big.Float).SetPrec(prec).SetFloat64(x) }
func bi(x int64) *big.Float   { return new(big.Float).SetPrec(prec).SetInt64(x) }

// dsec is the duration in seconds.
func (pt Part) dsec() *big.Float {
	return new(big.Float).SetPrec(prec).Quo(bi(int64(pt.D)), bi(1e9))
}

// Integral is the exact number of operations the rate curve covers over the whole part.
func (pt Part) Integral() *big.Float {
	if pt.IsOnce {
		return bi(pt.Once)
	}
	s := new(big.Float).SetPrec(prec).Add(bf(pt.A), bf(pt.B))
	s.Quo(s, bi(2))
	return s.Mul(s, pt.dsec())
}

// Count is the integral rounded down; nearInt reports that the exact integral lies
// within 1e-9 (relative) of an integer, where float64 evaluation may legitimately
// land on either side.
func (pt Part) Count() (n int64, nearInt bool) {
	if pt.IsOnce {
		return pt.Once, false
	}
	I := pt.Integral()
	fl, _ := I.Int(nil)
	n = fl.Int64()
	// distance to the nearest integer
	lo := new(big.Float).SetPrec(prec).Sub(I, new(big.Float).SetPrec(prec).SetInt(fl))
	hi := new(big.Float).SetPrec(prec).Sub(bi(1), lo)
	d := lo
	if hi.Cmp(lo) < 0 {
		d = hi
	}
	tol := new(big.Float).SetPrec(prec).Mul(bf(1e-9), I)
	if tol.Cmp(bf(1e-9)) < 0 {
		tol = bf(1e-9)
	}
	return n, d.Cmp(tol) <= 0
}

// TokenNS is the offset (nanoseconds, exact real as big.Float) from the part's
// start of the earliest instant at which the integral of the rate reaches k.
func (pt Part) TokenNS(k int64) *big.Float {
	if pt.IsOnce || k == 0 {
		return bi(0)
	}
	var tsec *big.Float
	if pt.A == pt.B {
		tsec = new(big.Float).SetPrec(prec).Quo(bi(k), bf(pt.A))
	} else {
		// I(t) = A t + s t^2/2, s = (B-A)/D ; t = (-A + sqrt(A^2 + 2 s k)) / s
		s := new(big.Float).SetPrec(prec).Sub(bf(pt.B), bf(pt.A))
		s.Quo(s, pt.dsec())
		disc := new(big.Float).SetPrec(prec).Mul(bf(pt.A), bf(pt.A))
		t2 := new(big.Float).SetPrec(prec).Mul(bi(2), s)
		t2.Mul(t2, bi(k))
		disc.Add(disc, t2)
		if disc.Sign() < 0 {
			disc = bi(0)
		}
		r := new(big.Float).SetPrec(prec).Sqrt(disc)
		r.Sub(r, bf(pt.A))
		tsec = r.Quo(r, s)
	}
	return tsec.Mul(tsec, bi(1e9))
}

func (pt Part) String() string {
	if pt.IsOnce {
		return fmt.Sprintf("once(%d)", pt.Once)
	}
	return fmt.Sprintf("rate(%v->%v over %v)", pt.A, pt.B, pt.D)
}

// CountRange is the set of token counts a float64 evaluation of the integral may
// legitimately produce: exactly floor(I), or {R-1, R} when I is within 1e-9
// (relative) of the integer R.
func (pt Part) CountRange() (min, max int64) {
	n, near := pt.Count()
	if !near {
		return n, n
	}
	I := pt.Integral()
	r := new(big.Float).SetPrec(prec).Add(I, bf(0.5))
	ri, _ := r.Int(nil)
	R := ri.Int64()
	if R == 0 {
		return 0, 0
	}
	return R - 1, R
}

// OffsetsOf interprets a schedule configuration (the maps/lists that go through
// pandora's config decoder) with the documented semantics and returns the token
// offsets from the schedule start and the total duration. Token counts use the
// upper bound of CountRange; minTokens counts only the tokens that are certain (a token
// at a near-integer integral may or may not exist after float64 rounding).
func OffsetsOf(conf interface{}) (offs []time.Duration, dur time.Duration, minTokens int, err error) {
	var parts []Part
	var walk func(c interface{}) error
	dOf := func(m map[string]interface{}, k string) (time.Duration, error) {
		s, _ := m[k].(string)
		return time.ParseDuration(s)
	}
	fOf := func(v interface{}) float64 {
		switch x := v.(type) {
		case float64:
			return x
		case int:
			return float64(x)
		case int64:
			return float64(x)
		}
		return 0
	}
	walk = func(c interface{}) error {
		switch x := c.(type) {
		case []interface{}:
			for _, e := range x {
				if err := walk(e); err != nil {
					return err
				}
			}
			return nil
		case map[string]interface{}:
			switch x["type"] {
			case "once":
				parts = append(parts, Part{IsOnce: true, Once: int64(fOf(x["times"]))})
			case "const":
				d, err := dOf(x, "duration")
				if err != nil {
					return err
				}
				parts = append(parts, Part{A: fOf(x["ops"]), B: fOf(x["ops"]), D: d})
			case "line":
				d, err := dOf(x, "duration")
				if err != nil {
					return err
				}
				parts = append(parts, Part{A: fOf(x["from"]), B: fOf(x["to"]), D: d})
			case "step":
				d, err := dOf(x, "duration")
				if err != nil {
					return err
				}
				parts = append(parts, Profile{Kind: "step", From: fOf(x["from"]), To: fOf(x["to"]), Step: int64(fOf(x["step"])), Dur: d}.Parts()...)
			case "instance_step":
				d, err := dOf(x, "stepduration")
				if err != nil {
					return err
				}
				from, to, st := int64(fOf(x["from"])), int64(fOf(x["to"])), int64(fOf(x["step"]))
				parts = append(parts, Part{IsOnce: true, Once: from})
				for i := from + st; i <= to; i += st {
					parts = append(parts, Part{D: d}, Part{IsOnce: true, Once: st})
				}
			default:
				return fmt.Errorf("unknown schedule type %v", x["type"])
			}
			return nil
		}
		return fmt.Errorf("unexpected schedule config %T", c)
	}
	if err := walk(conf); err != nil {
		return nil, 0, 0, err
	}
	var base time.Duration
	for _, pt := range parts {
		min, max := pt.CountRange()
		minTokens += int(min)
		for k := int64(0); k < max; k++ {
			f, _ := pt.TokenNS(k).Float64()
			offs = append(offs, base+time.Duration(f))
		}
		base += pt.D
	}
	return offs, base, minTokens, nil
}
