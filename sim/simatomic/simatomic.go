// Package simatomic replaces go.uber.org/atomic in instrumented code: the
// same operations on the real atomics, with a scheduling point before each and another one after each
// modifying operation (a flag published before the data it guards is only observable there).
package simatomic

import (
	"time"

	"go.uber.org/atomic"

	"verifsim/simrt"
)

const site = 1_000_101

func init() { simrt.RegisterSites(map[int]string{site: "atomic"}) }

type Int64 struct{ v atomic.Int64 }

func NewInt64(x int64) *Int64       { r := &Int64{}; r.v.Store(x); return r }
func (a *Int64) Load() int64        { simrt.Yield(site); return a.v.Load() }
func (a *Int64) Store(x int64)      { simrt.Yield(site); a.v.Store(x); simrt.Yield(site) }
func (a *Int64) Add(d int64) int64  { simrt.Yield(site); r := a.v.Add(d); simrt.Yield(site); return r }
func (a *Int64) Sub(d int64) int64  { simrt.Yield(site); r := a.v.Sub(d); simrt.Yield(site); return r }
func (a *Int64) Inc() int64         { simrt.Yield(site); r := a.v.Inc(); simrt.Yield(site); return r }
func (a *Int64) Dec() int64         { simrt.Yield(site); r := a.v.Dec(); simrt.Yield(site); return r }
func (a *Int64) Swap(x int64) int64 { simrt.Yield(site); r := a.v.Swap(x); simrt.Yield(site); return r }
func (a *Int64) CAS(o, n int64) bool {
	simrt.Yield(site)
	r := a.v.CompareAndSwap(o, n)
	simrt.Yield(site)
	return r
}
func (a *Int64) CompareAndSwap(o, n int64) bool {
	simrt.Yield(site)
	r := a.v.CompareAndSwap(o, n)
	simrt.Yield(site)
	return r
}
func (a *Int64) String() string               { return a.v.String() }
func (a *Int64) MarshalJSON() ([]byte, error) { return a.v.MarshalJSON() }

type Uint64 struct{ v atomic.Uint64 }

func NewUint64(x uint64) *Uint64 { r := &Uint64{}; r.v.Store(x); return r }
func (a *Uint64) Load() uint64   { simrt.Yield(site); return a.v.Load() }
func (a *Uint64) Store(x uint64) { simrt.Yield(site); a.v.Store(x); simrt.Yield(site) }
func (a *Uint64) Add(d uint64) uint64 {
	simrt.Yield(site)
	r := a.v.Add(d)
	simrt.Yield(site)
	return r
}
func (a *Uint64) Sub(d uint64) uint64 {
	simrt.Yield(site)
	r := a.v.Sub(d)
	simrt.Yield(site)
	return r
}
func (a *Uint64) Inc() uint64 { simrt.Yield(site); r := a.v.Inc(); simrt.Yield(site); return r }
func (a *Uint64) Dec() uint64 { simrt.Yield(site); r := a.v.Dec(); simrt.Yield(site); return r }
func (a *Uint64) Swap(x uint64) uint64 {
	simrt.Yield(site)
	r := a.v.Swap(x)
	simrt.Yield(site)
	return r
}
func (a *Uint64) CAS(o, n uint64) bool {
	simrt.Yield(site)
	r := a.v.CompareAndSwap(o, n)
	simrt.Yield(site)
	return r
}
func (a *Uint64) CompareAndSwap(o, n uint64) bool {
	simrt.Yield(site)
	r := a.v.CompareAndSwap(o, n)
	simrt.Yield(site)
	return r
}
func (a *Uint64) String() string               { return a.v.String() }
func (a *Uint64) MarshalJSON() ([]byte, error) { return a.v.MarshalJSON() }

type Bool struct{ v atomic.Bool }

func NewBool(x bool) *Bool       { r := &Bool{}; r.v.Store(x); return r }
func (a *Bool) Load() bool       { simrt.Yield(site); return a.v.Load() }
func (a *Bool) Store(x bool)     { simrt.Yield(site); a.v.Store(x); simrt.Yield(site) }
func (a *Bool) Swap(x bool) bool { simrt.Yield(site); r := a.v.Swap(x); simrt.Yield(site); return r }
func (a *Bool) Toggle() bool     { simrt.Yield(site); r := a.v.Toggle(); simrt.Yield(site); return r }
func (a *Bool) CAS(o, n bool) bool {
	simrt.Yield(site)
	r := a.v.CompareAndSwap(o, n)
	simrt.Yield(site)
	return r
}
func (a *Bool) CompareAndSwap(o, n bool) bool {
	simrt.Yield(site)
	r := a.v.CompareAndSwap(o, n)
	simrt.Yield(site)
	return r
}

type Time struct{ v atomic.Time }

func NewTime(x time.Time) *Time   { r := &Time{}; r.v.Store(x); return r }
func (a *Time) Load() time.Time   { simrt.Yield(site); return a.v.Load() }
func (a *Time) Store(x time.Time) { simrt.Yield(site); a.v.Store(x); simrt.Yield(site) }
