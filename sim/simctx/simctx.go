// Package simctx wraps the context constructors so that calling a cancel
// function is a scheduling point.
package simctx

import (
	"context"
	"time"

	"verifsim/simrt"
)

const site = 1_000_201

func init() { simrt.RegisterSites(map[int]string{site: "ctx.cancel"}) }

func wrap(c context.CancelFunc) context.CancelFunc {
	return func() { simrt.Yield(site); c() }
}

func WithCancel(p context.Context) (context.Context, context.CancelFunc) {
	ctx, c := context.WithCancel(p)
	return ctx, wrap(c)
}

func WithTimeout(p context.Context, d time.Duration) (context.Context, context.CancelFunc) {
	ctx, c := context.WithTimeout(p, d)
	return ctx, wrap(c)
}

func WithDeadline(p context.Context, t time.Time) (context.Context, context.CancelFunc) {
	ctx, c := context.WithDeadline(p, t)
	return ctx, wrap(c)
}
