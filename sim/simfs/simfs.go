// Package simfs is the simulated disk: an in-memory afero.Fs whose reads and
// writes can be chunked, shortened and failed at planned byte offsets, and which
// records what has been handed to Write (= what survives a process exit).
package simfs

import (
	"errors"
	"io"
	"os"
	"syscall"
	"time"

	"github.com/spf13/afero"

	"verifsim/simrt"
)

// Plan describes the faults of one file (keyed by path in Fs.Plans).
type Plan struct {
	ReadChunk int   // >0: reads return at most this many bytes
	ZeroReads []int // indexes of Read calls that return (0, nil)
	ReadErrAt int64 // >=0: Read fails with EIO once the offset reaches this byte
	// VanishAfterReads > 0: after this many Read calls the file is empty for every reader (it was truncated under the
	// reader: log rotation, a deploy replacing the ammo file): Read returns EOF at once, Seek still works
	VanishAfterReads int
	vanishReads      int
	ReadErrOnce      bool // the read error is transient: it is returned by one Read call, later reads of the same bytes succeed
	readErrDone      bool
	OpenErr          error // Open/OpenFile fails
	SeekErr          bool  // Seek fails
	WriteErrAt       int64 // >=0: Write fails with WriteErr after this many bytes were written (short write before)
	WriteErr         error
	ShortWrites      int // >0: each Write writes at most this many bytes then returns io.ErrShortWrite... (n < len, err != nil)
	CloseErr         error
	// EOFWithData: the Read call that delivers the last bytes of the file returns them together with io.EOF (n > 0,
	// err == io.EOF), as the io.Reader contract allows and some sources do (io.SectionReader-like, network file systems)
	EOFWithData bool
	Delay            time.Duration // each I/O call sleeps (slow disk)
}

func (p *Plan) readErrKind() string {
	if p.ReadErrOnce {
		return "read-eio-transient"
	}
	return "read-eio"
}

func NoPlan() Plan { return Plan{ReadErrAt: -1, WriteErrAt: -1} }

// Fs is one run's disk.
type Fs struct {
	afero.Fs
	mu     simrt.HMutex
	Plans  map[string]*Plan
	Fired  map[string]int // fault kind -> how often it bit
	dead   bool
	opened map[string]int
	closed map[string]int
}

func New() *Fs {
	return &Fs{Fs: afero.NewMemMapFs(), Plans: map[string]*Plan{}, Fired: map[string]int{}, opened: map[string]int{}, closed: map[string]int{}}
}

func (f *Fs) fire(kind string) {
	f.mu.Lock()
	f.Fired[kind]++
	f.mu.Unlock()
}

// Kill makes every further call fail (teardown: library goroutines must exit).
func (f *Fs) Kill() { f.mu.Lock(); f.dead = true; f.mu.Unlock() }

func (f *Fs) isDead() bool { f.mu.Lock(); defer f.mu.Unlock(); return f.dead }

func (f *Fs) plan(name string) *Plan {
	f.mu.Lock()
	defer f.mu.Unlock()
	return f.Plans[name]
}

// WriteFile puts content on the disk without any fault (workload set-up).
func (f *Fs) WriteFile(name string, data []byte) {
	if err := afero.WriteFile(f.Fs, name, data, 0o644); err != nil {
		panic(err)
	}
}

// Content returns the bytes of a file as they are "on disk" now.
func (f *Fs) Content(name string) ([]byte, bool) {
	b, err := afero.ReadFile(f.Fs, name)
	if err != nil {
		return nil, false
	}
	return b, true
}

func (f *Fs) OpenCount(name string) (opened, closed int) {
	f.mu.Lock()
	defer f.mu.Unlock()
	return f.opened[name], f.closed[name]
}

var errDead = errors.New("simfs: run is over")

func (f *Fs) Open(name string) (afero.File, error) {
	return f.OpenFile(name, os.O_RDONLY, 0)
}

func (f *Fs) Create(name string) (afero.File, error) {
	return f.OpenFile(name, os.O_RDWR|os.O_CREATE|os.O_TRUNC, 0o666)
}

func (f *Fs) OpenFile(name string, flag int, perm os.FileMode) (afero.File, error) {
	if f.isDead() {
		return nil, errDead
	}
	p := f.plan(name)
	if p != nil && p.OpenErr != nil {
		f.fire("open-error")
		return nil, &os.PathError{Op: "open", Path: name, Err: p.OpenErr}
	}
	file, err := f.Fs.OpenFile(name, flag, perm)
	if err != nil {
		return nil, err
	}
	f.mu.Lock()
	f.opened[name]++
	f.mu.Unlock()
	return &File{File: file, fs: f, name: name, plan: p}, nil
}

// File applies the plan of its path.
type File struct {
	afero.File
	fs      *Fs
	name    string
	plan    *Plan
	reads   int
	roff    int64
	written int64
	closed  bool
}

func (fl *File) delay() {
	if fl.plan != nil && fl.plan.Delay > 0 {
		time.Sleep(fl.plan.Delay)
	}
}

func (fl *File) Read(b []byte) (int, error) {
	if fl.fs.isDead() {
		return 0, errDead
	}
	// every disk call counts against the tick budget: code that reads (or rewinds) for ever without reaching a
	// synchronisation point - also inside a library the instrumenter does not see - ends as a SPIN verdict
	simrt.Tick()
	p := fl.plan
	if p == nil {
		n, err := fl.File.Read(b)
		fl.roff += int64(n)
		return n, err
	}
	fl.delay()
	idx := fl.reads
	fl.reads++
	for _, z := range p.ZeroReads {
		if z == idx && len(b) > 0 {
			fl.fs.fire("zero-read")
			return 0, nil
		}
	}
	if p.VanishAfterReads > 0 {
		p.vanishReads++
		if p.vanishReads > p.VanishAfterReads {
			fl.fs.fire("file-truncated-under-reader")
			return 0, io.EOF
		}
	}
	errAt := p.ReadErrAt
	if p.ReadErrOnce && p.readErrDone {
		errAt = -1
	}
	if errAt >= 0 && fl.roff >= errAt {
		fl.fs.fire(p.readErrKind())
		p.readErrDone = true
		return 0, &os.PathError{Op: "read", Path: fl.name, Err: syscall.EIO}
	}
	lim := len(b)
	if p.ReadChunk > 0 && lim > p.ReadChunk {
		lim = p.ReadChunk
		fl.fs.fire("short-read")
	}
	if errAt >= 0 && fl.roff+int64(lim) > errAt {
		lim = int(errAt - fl.roff)
	}
	if lim == 0 && len(b) > 0 {
		fl.fs.fire(p.readErrKind())
		p.readErrDone = true
		return 0, &os.PathError{Op: "read", Path: fl.name, Err: syscall.EIO}
	}
	n, err := fl.File.Read(b[:lim])
	fl.roff += int64(n)
	if p.EOFWithData && n > 0 && err == nil {
		if st, serr := fl.File.Stat(); serr == nil && fl.roff >= st.Size() {
			fl.fs.fire("eof-with-data")
			return n, io.EOF
		}
	}
	return n, err
}

func (fl *File) Seek(off int64, whence int) (int64, error) {
	simrt.Tick()
	if fl.fs.isDead() {
		return 0, errDead
	}
	if fl.plan != nil && fl.plan.SeekErr {
		fl.fs.fire("seek-error")
		return 0, &os.PathError{Op: "seek", Path: fl.name, Err: syscall.EIO}
	}
	n, err := fl.File.Seek(off, whence)
	if err == nil {
		fl.roff = n
	}
	return n, err
}

func (fl *File) Write(b []byte) (int, error) {
	if fl.fs.isDead() {
		return 0, errDead
	}
	p := fl.plan
	if p == nil {
		n, err := fl.File.Write(b)
		fl.written += int64(n)
		return n, err
	}
	fl.delay()
	lim := len(b)
	var ferr error
	if p.WriteErrAt >= 0 && fl.written+int64(lim) > p.WriteErrAt {
		lim = int(p.WriteErrAt - fl.written)
		if lim < 0 {
			lim = 0
		}
		ferr = p.WriteErr
		if ferr == nil {
			ferr = syscall.ENOSPC
		}
		ferr = &os.PathError{Op: "write", Path: fl.name, Err: ferr}
		fl.fs.fire("write-error")
	} else if p.ShortWrites > 0 && lim > p.ShortWrites {
		lim = p.ShortWrites
		ferr = io.ErrShortWrite
		fl.fs.fire("short-write")
	}
	n, err := fl.File.Write(b[:lim])
	fl.written += int64(n)
	if err == nil {
		err = ferr
	}
	return n, err
}

func (fl *File) WriteString(s string) (int, error) { return fl.Write([]byte(s)) }

func (fl *File) Close() error {
	fl.fs.mu.Lock()
	if !fl.closed {
		fl.closed = true
		fl.fs.closed[fl.name]++
	}
	fl.fs.mu.Unlock()
	err := fl.File.Close()
	if fl.plan != nil && fl.plan.CloseErr != nil {
		fl.fs.fire("close-error")
		return &os.PathError{Op: "close", Path: fl.name, Err: fl.plan.CloseErr}
	}
	return err
}

// Switch is the afero.Fs that pandora's process-wide registrations hold; its
// backing store is swapped per run.
type Switch struct {
	mu  simrt.HMutex
	cur afero.Fs
}

func NewSwitch() *Switch { return &Switch{cur: afero.NewMemMapFs()} }

func (s *Switch) Set(fs afero.Fs) { s.mu.Lock(); s.cur = fs; s.mu.Unlock() }
func (s *Switch) get() afero.Fs   { s.mu.Lock(); defer s.mu.Unlock(); return s.cur }

func (s *Switch) Create(name string) (afero.File, error) { return s.get().Create(name) }
func (s *Switch) Mkdir(name string, perm os.FileMode) error {
	return s.get().Mkdir(name, perm)
}
func (s *Switch) MkdirAll(path string, perm os.FileMode) error {
	return s.get().MkdirAll(path, perm)
}
func (s *Switch) Open(name string) (afero.File, error) { return s.get().Open(name) }
func (s *Switch) OpenFile(name string, flag int, perm os.FileMode) (afero.File, error) {
	return s.get().OpenFile(name, flag, perm)
}
func (s *Switch) Remove(name string) error                  { return s.get().Remove(name) }
func (s *Switch) RemoveAll(path string) error               { return s.get().RemoveAll(path) }
func (s *Switch) Rename(oldname, newname string) error      { return s.get().Rename(oldname, newname) }
func (s *Switch) Stat(name string) (os.FileInfo, error)     { return s.get().Stat(name) }
func (s *Switch) Name() string                              { return "simfs.Switch" }
func (s *Switch) Chmod(name string, mode os.FileMode) error { return s.get().Chmod(name, mode) }
func (s *Switch) Chown(name string, uid, gid int) error     { return s.get().Chown(name, uid, gid) }
func (s *Switch) Chtimes(name string, atime time.Time, mtime time.Time) error {
	return s.get().Chtimes(name, atime, mtime)
}
