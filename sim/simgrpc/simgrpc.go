// Package simgrpc redirects grpc.DialContext of instrumented code into the
// simulated network.
package simgrpc

import (
	"context"
	"runtime"

	"github.com/jhump/protoreflect/grpcreflect"

	"google.golang.org/grpc"

	"verifsim/simnet"
)

// DialContext replaces grpc.DialContext: same call plus a context dialer into simnet
// (a pass-through to the real network when no simulated network is installed).
func DialContext(ctx context.Context, target string, opts ...grpc.DialOption) (*grpc.ClientConn, error) {
	if n := simnet.Cur(); n != nil {
		// the connection identity is fixed now, by the calling task, not when grpc-go's goroutine dials
		opts = append(opts, grpc.WithContextDialer(n.TicketDialer(n.Ticket())))
	}
	return grpc.DialContext(ctx, target, opts...)
}

// NewReflectClientAuto replaces grpcreflect.NewClientAuto. The reflection client installs a finalizer that
// resets its stream; run by the garbage collector's goroutine it would touch channels of a (finished) synctest
// bubble from outside, which the runtime treats as fatal. Pandora closes the reflection connection itself, so
// under simulation the finalizer is dropped.
func NewReflectClientAuto(ctx context.Context, cc grpc.ClientConnInterface) *grpcreflect.Client {
	c := grpcreflect.NewClientAuto(ctx, cc)
	if simnet.Cur() != nil {
		runtime.SetFinalizer(c, nil)
	}
	return c
}
