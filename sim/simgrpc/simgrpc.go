// Package simgrpc redirects grpc.DialContext of instrumented code into the
// simulated network.
package simgrpc

import (
	"context"

	"google.golang.org/grpc"

	"verifsim/simnet"
)

// DialContext replaces grpc.DialContext: same call plus a context dialer into simnet
// (a pass-through to the real network when no simulated network is installed).
func DialContext(ctx context.Context, target string, opts ...grpc.DialOption) (*grpc.ClientConn, error) {
	if simnet.Cur() != nil {
		opts = append(opts, grpc.WithContextDialer(simnet.DialFunc))
	}
	return grpc.DialContext(ctx, target, opts...)
}
