// Package simnet is the simulated TCP network: in-memory connections between
// pandora's dialers and in-bubble servers, on the bubble's fake clock.
//
// Each direction of a connection is a FIFO of segments (visibleAt, bytes) with
// non-decreasing visibleAt; a reader consumes only segments whose instant has
// come and otherwise sleeps on the fake clock until the head's instant. Every
// delivery instant in one Net is a distinct simulated nanosecond, so that no two
// library goroutines are woken by the clock at the same instant.
//
// Faults are planned per connection (in dial order) before the run: refused
// connect, connect delay, segmentation, extra latency, reset after N bytes in
// either direction, delivery stall. The package is not instrumented: its locks
// are never held across a blocking point.
package simnet

import (
	"context"
	"errors"
	"fmt"
	"io"
	"net"
	"os"
	"strconv"
	"sync"
	"sync/atomic"
	"syscall"
	"time"
	"verifsim/simrt"
)

// ConnPlan is the fault plan of one connection.
type ConnPlan struct {
	Refuse      bool          // connect: ECONNREFUSED
	DialDelay   time.Duration // connect takes this long (beyond the dial timeout: i/o timeout)
	ChunkC2S    int           // >0: client->server bytes are delivered in segments of at most this size
	ChunkS2C    int           // >0: same for server->client
	ExtraLat    time.Duration // added to the net's latency, both directions
	ResetC2S    int64         // >=0: the connection is reset once this many client->server bytes were sent
	ResetS2C    int64         // >=0: the connection is reset once this many server->client bytes were sent
	StallS2CAt  int64         // >=0: after this many server->client bytes delivery stalls for StallS2C
	StallS2C    time.Duration //
	DropAllS2C  bool          // server->client bytes are never delivered (black hole after connect)
	ResetOnIdle time.Duration // >0: an idle connection is reset by the "peer/middlebox" after this long (not used by default)
}

// NoPlan is the fault-free plan.
func NoPlan() ConnPlan { return ConnPlan{ResetC2S: -1, ResetS2C: -1, StallS2CAt: -1} }

// Net is one run's network.
type Net struct {
	mu        simrt.HMutex
	listeners map[string]*Listener
	conns     []*Conn
	nextPort  int
	tickets   int
	dead      bool

	Latency time.Duration                       // one-way latency
	Plan    func(idx int, addr string) ConnPlan // nil: no faults
	Hosts   map[string]string                   // host name -> IP
	// PartitionFrom/PartitionTo: segments that would become visible inside the window are held until its end.
	PartitionFrom, PartitionTo time.Time

	Fired map[string]int // fault kind -> how often it bit
	Dials int
}

func New() *Net {
	return &Net{listeners: map[string]*Listener{}, Hosts: map[string]string{}, Fired: map[string]int{}, nextPort: 40000, Latency: 500 * time.Microsecond}
}

var cur atomic.Pointer[Net]

// Install makes n the network reached by every simnet.Dialer (nil: real network).
func Install(n *Net) { cur.Store(n) }

// Cur returns the installed network.
func Cur() *Net { return cur.Load() }

func (n *Net) fire(kind string) {
	n.mu.Lock()
	n.Fired[kind]++
	n.mu.Unlock()
}

// FiredSnapshot returns a copy of the fired-fault counters.
func (n *Net) FiredSnapshot() map[string]int {
	n.mu.Lock()
	defer n.mu.Unlock()
	m := map[string]int{}
	for k, v := range n.Fired {
		m[k] = v
	}
	return m
}

// Conns returns the connections made so far (dial order).
func (n *Net) Conns() []*Conn {
	n.mu.Lock()
	defer n.mu.Unlock()
	return append([]*Conn(nil), n.conns...)
}

func (n *Net) resolve(host string) net.IP {
	if ip := net.ParseIP(host); ip != nil {
		return ip
	}
	if s, ok := n.Hosts[host]; ok {
		return net.ParseIP(s)
	}
	if host == "localhost" || host == "" {
		return net.IPv4(127, 0, 0, 1)
	}
	// deterministic address per name
	h := uint32(2166136261)
	for i := 0; i < len(host); i++ {
		h = (h ^ uint32(host[i])) * 16777619
	}
	return net.IPv4(10, 1, byte(h>>8), byte(h)|1)
}

func (n *Net) tcpAddr(addr string) (*net.TCPAddr, error) {
	host, port, err := net.SplitHostPort(addr)
	if err != nil {
		return nil, &net.AddrError{Err: "missing port in address", Addr: addr}
	}
	p, err := strconv.Atoi(port)
	if err != nil {
		return nil, &net.AddrError{Err: "invalid port", Addr: addr}
	}
	return &net.TCPAddr{IP: n.resolve(host), Port: p}, nil
}

// instant returns the delivery instant for `want` on the stream with offset off (nanoseconds, unique per
// stream and per connect): an instant depends only on the simulated time of the write and on the stream, not
// on how many writes the (un-yielded, parallel) library goroutines happened to split their data into; streams
// get different offsets so that the clock does not wake the readers of two streams at the same instant.
func (n *Net) instant(want time.Time, off int) time.Time {
	n.mu.Lock()
	defer n.mu.Unlock()
	if !n.PartitionTo.IsZero() && !want.Before(n.PartitionFrom) && want.Before(n.PartitionTo) {
		want = n.PartitionTo
		n.Fired["partition-held"]++
	}
	// whole microseconds plus the stream's offset: offsets never accumulate over successive hops
	return want.Truncate(time.Microsecond).Add(time.Duration(off%1000) * time.Nanosecond)
}

// Kill closes everything (teardown: library goroutines must exit).
func (n *Net) Kill() {
	n.mu.Lock()
	n.dead = true
	ls := make([]*Listener, 0, len(n.listeners))
	for _, l := range n.listeners {
		ls = append(ls, l)
	}
	cs := append([]*Conn(nil), n.conns...)
	n.mu.Unlock()
	for _, l := range ls {
		l.Close()
	}
	for _, c := range cs {
		c.cli.Close()
		c.srv.Close()
	}
}

// ---- listener ----

type Listener struct {
	n      *Net
	addr   *net.TCPAddr
	keys   []string
	ch     chan *endpoint
	closed chan struct{}
	once   sync.Once
}

// Listen registers a listener on "host:port".
func (n *Net) Listen(addr string) (*Listener, error) {
	ta, err := n.tcpAddr(addr)
	if err != nil {
		return nil, err
	}
	l := &Listener{n: n, addr: ta, ch: make(chan *endpoint, 1024), closed: make(chan struct{})}
	l.keys = []string{addr, ta.String()}
	n.mu.Lock()
	defer n.mu.Unlock()
	for _, k := range l.keys {
		if _, dup := n.listeners[k]; dup {
			return nil, &net.OpError{Op: "listen", Net: "tcp", Addr: ta, Err: os.NewSyscallError("bind", syscall.EADDRINUSE)}
		}
	}
	for _, k := range l.keys {
		n.listeners[k] = l
	}
	return l, nil
}

func (l *Listener) Accept() (net.Conn, error) {
	select {
	case e := <-l.ch:
		return e, nil
	case <-l.closed:
		return nil, &net.OpError{Op: "accept", Net: "tcp", Addr: l.addr, Err: net.ErrClosed}
	}
}

func (l *Listener) Close() error {
	l.once.Do(func() {
		close(l.closed)
		l.n.mu.Lock()
		for _, k := range l.keys {
			if l.n.listeners[k] == l {
				delete(l.n.listeners, k)
			}
		}
		l.n.mu.Unlock()
	})
	return nil
}

func (l *Listener) Addr() net.Addr { return l.addr }

// ---- connection ----

type segment struct {
	at   time.Time
	data []byte
	fin  bool
	rst  bool
}

// stream is one direction of a connection.
type stream struct {
	mu      simrt.HMutex
	segs    []segment
	wake    chan struct{}
	last    time.Time // last visibleAt of this direction (FIFO)
	sent    int64     // bytes accepted from the writer
	finSent bool
	rstSent bool
	rstAt   time.Time // the instant the RST reaches the reading end
	stalled bool
	off     int // unique offset of this stream (ns)
}

func (s *stream) signal() {
	simrt.RaceDisable()
	select {
	case s.wake <- struct{}{}:
	default:
	}
	simrt.RaceEnable()
}

// Conn is one connection; Index is its number in dial order.
type Conn struct {
	Index    int
	Addr     string // dialled address
	Plan     ConnPlan
	n        *Net
	cli, srv *endpoint
	c2s, s2c *stream
	DialedAt time.Time
}

// BytesC2S / BytesS2C: bytes written in each direction so far.
func (c *Conn) BytesC2S() int64 { c.c2s.mu.Lock(); defer c.c2s.mu.Unlock(); return c.c2s.sent }
func (c *Conn) BytesS2C() int64 { c.s2c.mu.Lock(); defer c.s2c.mu.Unlock(); return c.s2c.sent }

// ClientLocal is the client's address of this connection (= RemoteAddr seen by the server).
func (c *Conn) ClientLocal() string { return c.cli.local.String() }

type endpoint struct {
	c             *Conn
	client        bool
	in, out       *stream
	local, remote *net.TCPAddr

	mu     simrt.HMutex
	closed bool
	rdl    time.Time
	wdl    time.Time
}

func (e *endpoint) opErr(op string, err error) error {
	return &net.OpError{Op: op, Net: "tcp", Source: e.local, Addr: e.remote, Err: err}
}

var errReset = os.NewSyscallError("read", syscall.ECONNRESET)

func (e *endpoint) Read(b []byte) (int, error) {
	if len(b) == 0 {
		return 0, nil
	}
	q := e.in
	for {
		e.mu.Lock()
		closed, dl := e.closed, e.rdl
		e.mu.Unlock()
		if closed {
			return 0, e.opErr("read", net.ErrClosed)
		}
		now := time.Now()
		if !dl.IsZero() && !now.Before(dl) {
			return 0, e.opErr("read", os.ErrDeadlineExceeded)
		}
		q.mu.Lock()
		var wait time.Duration = -1
		if len(q.segs) > 0 {
			sg := &q.segs[0]
			if !sg.at.After(now) {
				switch {
				case sg.rst:
					q.mu.Unlock()
					return 0, e.opErr("read", errReset)
				case sg.fin:
					q.mu.Unlock()
					return 0, io.EOF
				}
				n := copy(b, sg.data)
				sg.data = sg.data[n:]
				if len(sg.data) == 0 {
					q.segs = q.segs[1:]
				}
				q.mu.Unlock()
				return n, nil
			}
			wait = sg.at.Sub(now)
		}
		q.mu.Unlock()
		if !dl.IsZero() {
			if d := dl.Sub(now); wait < 0 || d < wait {
				wait = d
			}
		}
		// A socket carries bytes, not happens-before edges: the waits of the simulated connection stay invisible to the
		// race detector. (Timer channels in particular make the runtime's per-P timer context a hub: whoever wakes from
		// one acquires the clock of everybody who armed an earlier timer, which ordered the instances with one another.)
		simrt.RaceDisable()
		if wait < 0 {
			<-q.wake
			simrt.RaceEnable()
			continue
		}
		t := time.NewTimer(wait)
		select {
		case <-q.wake:
		case <-t.C:
		}
		t.Stop()
		simrt.RaceEnable()
	}
}

func (e *endpoint) Write(b []byte) (int, error) {
	e.mu.Lock()
	closed := e.closed
	e.mu.Unlock()
	if closed {
		return 0, e.opErr("write", net.ErrClosed)
	}
	e.mu.Lock()
	wdl := e.wdl
	e.mu.Unlock()
	if !wdl.IsZero() && !time.Now().Before(wdl) {
		// as on a real socket: a write with an expired write deadline fails at once, whatever the buffers hold
		return 0, e.opErr("write", os.ErrDeadlineExceeded)
	}
	c, n := e.c, e.c.n
	q := e.out
	inReset, inAt := e.in.isReset() // (never two stream locks at once: the peer's Write takes them in the other order)
	q.mu.Lock()
	if inReset && !time.Now().Before(inAt) {
		q.mu.Unlock()
		return 0, e.opErr("write", os.NewSyscallError("write", syscall.ECONNRESET))
	}
	if q.rstSent || inReset {
		// the RST has not reached this end yet: as on a real socket the write succeeds and the bytes go nowhere.
		// (Failing at once would let a writer learn of the reset a latency before its reader does; grpc's transparent
		// retry then spins in real time on a transport whose reader waits for simulated time that cannot advance.)
		q.mu.Unlock()
		return len(b), nil
	}
	if q.finSent {
		q.mu.Unlock()
		return 0, e.opErr("write", os.NewSyscallError("write", syscall.EPIPE))
	}
	q.mu.Unlock()
	lat := n.Latency + c.Plan.ExtraLat
	chunk, resetAt := c.Plan.ChunkC2S, c.Plan.ResetC2S
	if !e.client {
		chunk, resetAt = c.Plan.ChunkS2C, c.Plan.ResetS2C
	}
	data := append([]byte(nil), b...)
	written := 0
	for len(data) > 0 {
		piece := data
		if chunk > 0 && len(piece) > chunk {
			piece = piece[:chunk]
		}
		q.mu.Lock()
		sent := q.sent
		q.mu.Unlock()
		reset := false
		if resetAt >= 0 && sent+int64(len(piece)) >= resetAt {
			piece = piece[:resetAt-sent]
			reset = true
		}
		if len(piece) > 0 {
			if !e.client && c.Plan.DropAllS2C {
				n.fire("blackhole-s2c")
				q.mu.Lock()
				q.sent += int64(len(piece))
				q.mu.Unlock()
			} else {
				want := time.Now().Add(lat)
				if chunk > 0 {
					// segmentation: the k-th chunk of the stream arrives k ns later (a function of the byte position only)
					q.mu.Lock()
					want = want.Add(time.Duration(q.sent/int64(chunk)%1000) * time.Nanosecond)
					q.mu.Unlock()
				}
				q.mu.Lock()
				stallNow := false
				if !e.client && c.Plan.StallS2CAt >= 0 && !q.stalled && q.sent+int64(len(piece)) > c.Plan.StallS2CAt {
					q.stalled = true
					stallNow = true
					want = want.Add(c.Plan.StallS2C)
				}
				if want.Before(q.last) {
					want = q.last
				}
				q.mu.Unlock()
				if stallNow {
					n.fire("stall-s2c")
				}
				q.mu.Lock()
				if want.Before(q.last) {
					want = q.last
				}
				q.mu.Unlock()
				at := n.instant(want, q.off)
				q.mu.Lock()
				if at.Before(q.last) {
					at = q.last
				}
				q.last = at
				if k := len(q.segs); k > 0 && q.segs[k-1].at.Equal(at) && !q.segs[k-1].fin && !q.segs[k-1].rst && chunk == 0 {
					// written at the same simulated instant: one segment, however the writer split it
					q.segs[k-1].data = append(q.segs[k-1].data, piece...)
				} else {
					q.segs = append(q.segs, segment{at: at, data: piece})
				}
				q.sent += int64(len(piece))
				q.mu.Unlock()
				q.signal()
			}
			written += len(piece)
			data = data[len(piece):]
		}
		if reset {
			if e.client {
				n.fire("reset-c2s")
			} else {
				n.fire("reset-s2c")
			}
			c.reset()
			if written < len(b) {
				return written, e.opErr("write", os.NewSyscallError("write", syscall.ECONNRESET))
			}
			return written, nil
		}
	}
	return written, nil
}

func (s *stream) isReset() (bool, time.Time) {
	s.mu.Lock()
	defer s.mu.Unlock()
	return s.rstSent, s.rstAt
}

// reset: both directions get an RST after the data already in flight.
func (c *Conn) reset() {
	for _, q := range []*stream{c.c2s, c.s2c} {
		q.mu.Lock()
		if q.rstSent {
			q.mu.Unlock()
			continue
		}
		want := time.Now().Add(c.n.Latency + c.Plan.ExtraLat)
		if want.Before(q.last) {
			want = q.last
		}
		q.mu.Unlock()
		at := c.n.instant(want, q.off)
		q.mu.Lock()
		if at.Before(q.last) {
			at = q.last
		}
		q.last = at
		q.rstSent, q.rstAt = true, at
		q.segs = append(q.segs, segment{at: at, rst: true})
		q.mu.Unlock()
		q.signal()
	}
}

// Reset injects a connection reset now (used by scripted peers / fault plans at instants).
func (c *Conn) Reset() { c.n.fire("reset-injected"); c.reset() }

func (e *endpoint) Close() error {
	e.mu.Lock()
	if e.closed {
		e.mu.Unlock()
		return e.opErr("close", net.ErrClosed)
	}
	e.closed = true
	e.mu.Unlock()
	// FIN to the peer after the data in flight
	q := e.out
	q.mu.Lock()
	if !q.finSent && !q.rstSent {
		want := time.Now().Add(e.c.n.Latency + e.c.Plan.ExtraLat)
		if want.Before(q.last) {
			want = q.last
		}
		q.mu.Unlock()
		at := e.c.n.instant(want, q.off)
		q.mu.Lock()
		if at.Before(q.last) {
			at = q.last
		}
		q.last = at
		q.finSent = true
		q.segs = append(q.segs, segment{at: at, fin: true})
	}
	q.mu.Unlock()
	q.signal()
	e.in.signal() // wake a Read of ours blocked in another goroutine
	return nil
}

func (e *endpoint) LocalAddr() net.Addr  { return e.local }
func (e *endpoint) RemoteAddr() net.Addr { return e.remote }

func (e *endpoint) SetDeadline(t time.Time) error {
	e.mu.Lock()
	e.rdl, e.wdl = t, t
	e.mu.Unlock()
	e.in.signal()
	return nil
}

func (e *endpoint) SetReadDeadline(t time.Time) error {
	e.mu.Lock()
	e.rdl = t
	e.mu.Unlock()
	e.in.signal()
	return nil
}

func (e *endpoint) SetWriteDeadline(t time.Time) error {
	e.mu.Lock()
	e.wdl = t
	e.mu.Unlock()
	return nil
}

// Conn returns the simulated connection behind a net.Conn handed out by this package (nil otherwise).
func ConnOf(c net.Conn) *Conn {
	if e, ok := c.(*endpoint); ok {
		return e.c
	}
	return nil
}

// ---- dialer ----

// Dialer replaces net.Dialer in instrumented code (same fields as far as pandora uses them).
type Dialer struct {
	Timeout       time.Duration
	Deadline      time.Time
	LocalAddr     net.Addr
	DualStack     bool
	FallbackDelay time.Duration
	KeepAlive     time.Duration
}

func (d *Dialer) real() *net.Dialer {
	return &net.Dialer{Timeout: d.Timeout, Deadline: d.Deadline, LocalAddr: d.LocalAddr, FallbackDelay: d.FallbackDelay, KeepAlive: d.KeepAlive}
}

func (d *Dialer) Dial(network, addr string) (net.Conn, error) {
	return d.DialContext(context.Background(), network, addr)
}

func (d *Dialer) DialContext(ctx context.Context, network, addr string) (net.Conn, error) {
	n := cur.Load()
	if n == nil {
		return d.real().DialContext(ctx, network, addr)
	}
	return n.Dial(ctx, d.Timeout, addr)
}

// DialFunc is the shape grpc.WithContextDialer wants.
func DialFunc(ctx context.Context, addr string) (net.Conn, error) {
	n := cur.Load()
	if n == nil {
		var d net.Dialer
		return d.DialContext(ctx, "tcp", addr)
	}
	return n.Dial(ctx, 0, addr)
}

// Ticket reserves a deterministic identity for connections that a library will dial later from its own
// goroutines (grpc-go connects lazily): the ticket is taken by the calling task, so ticket order = task order.
func (n *Net) Ticket() int {
	n.mu.Lock()
	defer n.mu.Unlock()
	n.tickets++
	return n.tickets
}

// TicketDialer returns a context dialer whose connections get indexes derived from the ticket.
func (n *Net) TicketDialer(ticket int) func(ctx context.Context, addr string) (net.Conn, error) {
	attempt := 0
	var mu simrt.HMutex
	return func(ctx context.Context, addr string) (net.Conn, error) {
		mu.Lock()
		idx := 1000 + ticket*8 + attempt%8
		attempt++
		mu.Unlock()
		return n.dial(ctx, 0, addr, idx)
	}
}

func (n *Net) Dial(ctx context.Context, timeout time.Duration, addr string) (net.Conn, error) {
	n.mu.Lock()
	idx := n.Dials
	n.Dials++
	n.mu.Unlock()
	return n.dial(ctx, timeout, addr, idx)
}

func (n *Net) dial(ctx context.Context, timeout time.Duration, addr string, idx int) (net.Conn, error) {
	ra, err := n.tcpAddr(addr)
	if err != nil {
		return nil, &net.OpError{Op: "dial", Net: "tcp", Err: err}
	}
	n.mu.Lock()
	if n.dead {
		n.mu.Unlock()
		return nil, &net.OpError{Op: "dial", Net: "tcp", Addr: ra, Err: errors.New("simnet: run is over")}
	}
	l := n.listeners[addr]
	if l == nil {
		l = n.listeners[ra.String()]
	}
	n.nextPort++
	local := &net.TCPAddr{IP: net.IPv4(10, 9, 0, 1), Port: n.nextPort}
	n.mu.Unlock()
	plan := NoPlan()
	if n.Plan != nil {
		plan = n.Plan(idx, addr)
	}
	refused := &net.OpError{Op: "dial", Net: "tcp", Addr: ra, Err: os.NewSyscallError("connect", syscall.ECONNREFUSED)}
	if plan.Refuse {
		n.fire("connect-refused")
		return nil, refused
	}
	if l == nil {
		n.fire("connect-no-listener")
		return nil, refused
	}
	// the handshake takes one round trip (+ the planned delay)
	delay := 2*(n.Latency+plan.ExtraLat) + plan.DialDelay
	var tmo <-chan time.Time
	if timeout > 0 {
		tt := time.NewTimer(timeout)
		defer tt.Stop()
		tmo = tt.C
	}
	if plan.DialDelay > 0 {
		n.fire("connect-delay")
	}
	// the connect completes at an instant of its own (see slot): goroutines woken by the clock never run side by side
	dt := time.NewTimer(time.Until(n.instant(time.Now().Add(delay), 3*idx+2)))
	defer dt.Stop()
	select {
	case <-dt.C:
	case <-tmo:
		n.fire("connect-timeout")
		return nil, &net.OpError{Op: "dial", Net: "tcp", Addr: ra, Err: timeoutError{}}
	case <-ctx.Done():
		return nil, &net.OpError{Op: "dial", Net: "tcp", Addr: ra, Err: ctx.Err()}
	}
	c := &Conn{Index: idx, Addr: addr, Plan: plan, n: n, DialedAt: time.Now()}
	c.c2s = &stream{wake: make(chan struct{}, 1), off: 3 * idx}
	c.s2c = &stream{wake: make(chan struct{}, 1), off: 3*idx + 1}
	c.cli = &endpoint{c: c, client: true, in: c.s2c, out: c.c2s, local: local, remote: ra}
	c.srv = &endpoint{c: c, in: c.c2s, out: c.s2c, local: ra, remote: local}
	n.mu.Lock()
	n.conns = append(n.conns, c)
	n.mu.Unlock()
	select {
	case l.ch <- c.srv:
	case <-l.closed:
		return nil, refused
	}
	return c.cli, nil
}

type timeoutError struct{}

func (timeoutError) Error() string   { return "i/o timeout" }
func (timeoutError) Timeout() bool   { return true }
func (timeoutError) Temporary() bool { return true }

func (c *Conn) String() string { return fmt.Sprintf("conn#%d(%s)", c.Index, c.Addr) }

// Resolve returns the canonical "ip:port" of an address on this network.
func (n *Net) Resolve(addr string) (string, error) {
	ta, err := n.tcpAddr(addr)
	if err != nil {
		return "", err
	}
	return ta.String(), nil
}
