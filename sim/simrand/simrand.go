// Package simrand replaces the global functions of math/rand (and NewSource)
// in instrumented code by a stream that is re-seeded from the run's tape seed
// at the start of every simulated run, so request content replays.
package simrand

import (
	"math/rand"

	"verifsim/simrt"
)

// A source is, like the one of math/rand, NOT safe for concurrent use: it adds no synchronisation of its own, so
// that the race detector sees a *rand.Rand shared by several instances exactly as it would see the real one
// (an earlier version locked a mutex here and thereby hid such races).
type source struct {
	seed int64
	cur  *simrt.Sim
	src  rand.Source64
}

func (s *source) sync() {
	c := simrt.Cur()
	if s.src == nil || c != s.cur {
		s.cur = c
		seed := s.seed
		if c != nil {
			seed = int64(c.Tape.Seed) ^ s.seed
		}
		s.src = rand.NewSource(seed).(rand.Source64)
	}
}

func (s *source) Int63() int64    { s.sync(); return s.src.Int63() }
func (s *source) Uint64() uint64  { s.sync(); return s.src.Uint64() }
func (s *source) Seed(seed int64) { s.seed = seed; s.src = nil }

// NewSource ignores wall-clock derived seeds: the seed only distinguishes
// sources within a run.
func NewSource(seed int64) rand.Source {
	if seed > 1<<40 || seed < 0 { // time.Now().UnixNano() style seed
		seed = 1
	}
	return &source{seed: seed}
}

// The top-level functions of math/rand are safe for concurrent use and (pandora never seeds the global source) take no
// lock the race detector could see: concurrent callers are not ordered by them. The replacement therefore keeps no
// state of its own: a value is a hash of the run's seed and the simulation's event counter (deterministic under the
// seeded scheduler), and the counter is bumped with the detector's synchronisation handling switched off.
func u64() uint64 {
	s := simrt.Cur()
	if s == nil {
		return rand.Uint64()
	}
	simrt.RaceDisable()
	n := simrt.Seq()
	simrt.RaceEnable()
	z := s.Tape.Seed ^ 0x6a09e667f3bcc909 + n*0x9e3779b97f4a7c15
	z = (z ^ (z >> 30)) * 0xbf58476d1ce4e5b9
	z = (z ^ (z >> 27)) * 0x94d049bb133111eb
	return z ^ (z >> 31)
}

func Int63() int64   { return int64(u64() >> 1) }
func Int() int       { return int(uint(Int63())) }
func Int31() int32   { return int32(Int63() >> 32) }
func Uint32() uint32 { return uint32(u64() >> 32) }
func Uint64() uint64 { return u64() }
func Int63n(n int64) int64 {
	if n <= 0 {
		panic("invalid argument to Int63n")
	}
	return int64(u64() % uint64(n))
}
func Int31n(n int32) int32 {
	if n <= 0 {
		panic("invalid argument to Int31n")
	}
	return int32(u64() % uint64(n))
}
func Intn(n int) int {
	if n <= 0 {
		panic("invalid argument to Intn")
	}
	return int(u64() % uint64(n))
}
func Float64() float64 { return float64(u64()>>11) / (1 << 53) }
func Perm(n int) []int {
	m := make([]int, n)
	for i := range m {
		j := Intn(i + 1)
		m[i] = m[j]
		m[j] = i
	}
	return m
}
func Shuffle(n int, swap func(i, j int)) {
	for i := n - 1; i > 0; i-- {
		swap(i, Intn(i+1))
	}
}
func Read(p []byte) (int, error) {
	for i := range p {
		p[i] = byte(u64())
	}
	return len(p), nil
}
