// Package simrand replaces the global functions of math/rand (and NewSource)
// in instrumented code by a stream that is re-seeded from the run's tape seed
// at the start of every simulated run, so request content replays.
package simrand

import (
	"math/rand"
	"sync"

	"verifsim/simrt"
)

type source struct {
	mu   sync.Mutex
	seed int64
	cur  *simrt.Sim
	src  rand.Source64
}

func (s *source) sync() {
	c := simrt.Cur()
	if s.src == nil || c != s.cur {
		s.cur = c
		seed := s.seed
		if c != nil {
			seed = int64(c.Tape.Seed) ^ s.seed
		}
		s.src = rand.NewSource(seed).(rand.Source64)
	}
}

func (s *source) Int63() int64    { s.mu.Lock(); defer s.mu.Unlock(); s.sync(); return s.src.Int63() }
func (s *source) Uint64() uint64  { s.mu.Lock(); defer s.mu.Unlock(); s.sync(); return s.src.Uint64() }
func (s *source) Seed(seed int64) { s.mu.Lock(); s.seed = seed; s.src = nil; s.mu.Unlock() }

// NewSource ignores wall-clock derived seeds: the seed only distinguishes
// sources within a run.
func NewSource(seed int64) rand.Source {
	if seed > 1<<40 || seed < 0 { // time.Now().UnixNano() style seed
		seed = 1
	}
	return &source{seed: seed}
}

var global = rand.New(NewSource(7))
var gmu sync.Mutex

func Int() int                           { gmu.Lock(); defer gmu.Unlock(); return global.Int() }
func Intn(n int) int                     { gmu.Lock(); defer gmu.Unlock(); return global.Intn(n) }
func Int63() int64                       { gmu.Lock(); defer gmu.Unlock(); return global.Int63() }
func Int63n(n int64) int64               { gmu.Lock(); defer gmu.Unlock(); return global.Int63n(n) }
func Int31() int32                       { gmu.Lock(); defer gmu.Unlock(); return global.Int31() }
func Int31n(n int32) int32               { gmu.Lock(); defer gmu.Unlock(); return global.Int31n(n) }
func Uint32() uint32                     { gmu.Lock(); defer gmu.Unlock(); return global.Uint32() }
func Uint64() uint64                     { gmu.Lock(); defer gmu.Unlock(); return global.Uint64() }
func Float64() float64                   { gmu.Lock(); defer gmu.Unlock(); return global.Float64() }
func Perm(n int) []int                   { gmu.Lock(); defer gmu.Unlock(); return global.Perm(n) }
func Shuffle(n int, swap func(i, j int)) { gmu.Lock(); defer gmu.Unlock(); global.Shuffle(n, swap) }
func Read(p []byte) (int, error)         { gmu.Lock(); defer gmu.Unlock(); return global.Read(p) }
