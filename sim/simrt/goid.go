package simrt

import "runtime"

// goid parses the current goroutine id from the first stack line
// ("goroutine 123 [running]:").
func goid() uint64 {
	var buf [40]byte
	n := runtime.Stack(buf[:], false)
	var id uint64
	for i := len("goroutine "); i < n; i++ {
		c := buf[i]
		if c < '0' || c > '9' {
			break
		}
		id = id*10 + uint64(c-'0')
	}
	return id
}
