//go:build !race

package simrt

func raceDisable() {}
func raceEnable()  {}

const RaceBuild = false

func RaceDisable() {}
func RaceEnable()  {}
