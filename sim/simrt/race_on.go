//go:build race

package simrt

import "runtime"

// The scheduler's own synchronisation must stay invisible to the race
// detector, otherwise the serialised execution orders everything.
func raceDisable() { runtime.RaceDisable() }
func raceEnable()  { runtime.RaceEnable() }

const RaceBuild = true
