//go:build race

package simrt

import "runtime"

// The scheduler's own synchronisation must stay invisible to the race
// detector, otherwise the serialised execution orders everything.
func raceDisable() { runtime.RaceDisable() }
func raceEnable()  { runtime.RaceEnable() }

const RaceBuild = true

// RaceDisable / RaceEnable: for the simulator's own packages (simsync), whose internal locks must not order pandora's tasks
// in the eyes of the detector.
func RaceDisable() { runtime.RaceDisable() }
func RaceEnable()  { runtime.RaceEnable() }
