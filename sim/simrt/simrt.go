// Package simrt is the seeded cooperative scheduler of the deterministic
// simulation. Instrumented code (see cmd/instr) calls Yield before every
// synchronisation operation and Woke after every blocking one; the scheduler
// goroutine — the root of a testing/synctest bubble — waits for quiescence and
// releases exactly one parked task at a time, chosen from the tape.
//
// Outside a simulation every entry point is a pass-through.
package simrt

import (
	"cmp"
	"fmt"
	"reflect"
	"runtime"
	"runtime/debug"
	"sort"
	"strings"
	"sync"
	"sync/atomic"
	"testing/synctest"
	"time"
)

// Config of one simulated run.
type Config struct {
	Horizon   time.Duration // simulated time after which an unfinished root is a HANG
	Grace     time.Duration // simulated time the run continues after the root finished (leak oracle)
	MaxSteps  int           // scheduling decisions budget
	Stalls    bool          // scheduler may stall a released task for a simulated duration
	StallMax  time.Duration // upper bound of one stall
	TraceFull bool          // keep the full decision log (determinism self-test, replays)
	Strategy  int           // 0: drawn per run; 1 sticky, 2 uniform, 3 pct
	TickLimit int64         // loop iterations between two scheduling points before the SPIN verdict (0: TickLimit)
}

type VerdictClass string

const (
	OK       VerdictClass = ""
	Crash    VerdictClass = "CRASH"    // a panic escaped a pandora goroutine: the process would have died
	Hang     VerdictClass = "HANG"     // root not finished at the horizon
	Livelock VerdictClass = "LIVELOCK" // step budget exhausted
	Spin     VerdictClass = "SPIN"     // loop without synchronisation exceeded the tick budget
)

// Result of the simulation infrastructure (not the property oracle).
type Result struct {
	Class      VerdictClass
	Detail     string
	Stack      string
	Steps      int
	Switches   int
	Tasks      int
	Leaked     []string // creation sites of tasks alive after the grace period
	SimTime    time.Duration
	TraceHash  uint64
	Trace      []string
	Stalls     int
	SelectMult int         // selects entered with >=2 ready cases
	SiteHits   map[int]int // scheduling decisions per site (site = a channel operation, select, go statement of the instrumented sources)
}

type grant struct {
	abort bool
	start int           // select scan start
	stall time.Duration // sleep before continuing
}

type Task struct {
	ID      int
	Site    int // creation site
	goid    uint64
	resume  chan grant
	at      int // site where parked
	selN    int // >0: parked at a select with selN cases
	done    bool
	parent  int
	started time.Time
	prio    int
}

type Sim struct {
	Tape *Tape
	cfg  Config

	mu     sync.Mutex
	all    []*Task
	parked []*Task
	notify chan struct{}
	cur    *Task

	aborting atomic.Bool
	ticks    atomic.Int64

	srng     xoshiro // strategy-internal randomness (decisions are what the tape records)
	strategy int
	stayNum  int
	prio     map[int]int
	pctLeft  []int

	res       Result
	crashed   bool
	t0        time.Time
	seq       atomic.Uint64 // global event sequence number (porcupine stamps)
	siteHits  map[int]int
	rootDone  bool
	graceT    *time.Timer
	onAbort   []func()
	lastStepT time.Time
	tickLimit int64
}

var active atomic.Pointer[Sim]

// Active reports whether a simulation is running in this process.
//
//go:norace
func Active() bool { return active.Load() != nil }

// Cur returns the running simulation or nil.
//
//go:norace
func Cur() *Sim { return active.Load() }

const TickLimit = 200_000_000

// Run executes root as task 0 under the seeded scheduler inside the current
// synctest bubble. It must be called from the bubble's root goroutine.
//
//go:norace
func Run(tape *Tape, cfg Config, root func()) Result {
	if cfg.MaxSteps == 0 {
		cfg.MaxSteps = 200000
	}
	if cfg.Horizon == 0 {
		cfg.Horizon = time.Hour
	}
	s := &Sim{
		Tape:     tape,
		cfg:      cfg,
		notify:   make(chan struct{}, 1),
		siteHits: map[int]int{},
		prio:     map[int]int{},
	}
	s.tickLimit = cfg.TickLimit
	if s.tickLimit <= 0 {
		s.tickLimit = TickLimit
	}
	s.srng.seed(splitmix(tape.Seed, 4))
	s.strategy = cfg.Strategy
	if s.strategy == 0 {
		s.strategy = 1 + int(s.srng.next()%3)
	}
	switch s.srng.next() % 3 {
	case 0:
		s.stayNum = 50
	case 1:
		s.stayNum = 80
	default:
		s.stayNum = 95
	}
	if s.strategy == 3 {
		d := 1 + int(s.srng.next()%4)
		for i := 0; i < d; i++ {
			s.pctLeft = append(s.pctLeft, int(s.srng.next()%2000))
		}
		sort.Ints(s.pctLeft)
	}
	s.t0 = time.Now()
	runBarrier.Add(1) // acquire what the tasks of earlier runs released; the tasks of this run inherit it when they are started
	raceDisable()
	defer raceEnable()
	if !active.CompareAndSwap(nil, s) {
		panic("simrt: nested simulation")
	}
	defer active.Store(nil)

	s.spawn(-1, 0, func() {
		root()
		s.mu.Lock()
		s.rootDone = true
		s.mu.Unlock()
	})
	s.loop()
	s.res.SiteHits = s.siteHits
	return s.res
}

// Seq returns the next global event sequence number.
//
//go:norace
func Seq() uint64 {
	if s := active.Load(); s != nil {
		raceDisable() // the stamp counter is the simulator's own: no happens-before edge between the callers
		n := s.seq.Add(1)
		raceEnable()
		return n
	}
	return 0
}

// Now is the simulated time since the start of the run.
//
//go:norace
func (s *Sim) Elapsed() time.Duration { return time.Since(s.t0) }

//go:norace
func (s *Sim) spawn(parent, site int, fn func()) *Task {
	s.mu.Lock()
	t := &Task{ID: len(s.all), Site: site, resume: make(chan grant), parent: parent, started: time.Now()}
	s.all = append(s.all, t)
	if s.strategy == 3 {
		t.prio = 1000 + int(s.srng.next()%1000000)
	}
	s.mu.Unlock()
	// the go statement itself must be visible to the race detector: it is the happens-before edge from the
	// parent to the new goroutine (everything the parent built before starting it)
	raceEnable()
	go s.taskMain(t, site, fn)
	raceDisable()
	return t
}

// taskMain is the body of a task goroutine.
//
//go:norace
func (s *Sim) taskMain(t *Task, site int, fn func()) {
	raceDisable()
	t.goid = goid()
	defer s.exit(t)
	s.park(t, site, 0)
	raceEnable()
	fn()
}

// runBarrier orders the tasks of one simulation before the tasks of the next one in the same process (visible to the
// race detector on purpose): a package-level variable of pandora written in one run and read in the next is not a race
// of pandora's, the runs are sequential.
var runBarrier atomic.Int64

//go:norace
func (s *Sim) exit(t *Task) {
	r := recover()
	runBarrier.Add(1) // release (and acquire): this task's accesses happen before everything of a later run
	raceDisable()
	defer raceEnable()
	s.mu.Lock()
	t.done = true
	if r != nil && !s.crashed {
		s.crashed = true
		if sp, ok := r.(spinPanic); ok {
			s.res.Class = Spin
			s.res.Detail = fmt.Sprintf("task %d (created at %s) looped %d times without a synchronisation point", t.ID, SiteName(t.Site), int64(sp))
		} else {
			s.res.Class = Crash
			s.res.Detail = fmt.Sprintf("panic in task %d (created at %s): %v", t.ID, SiteName(t.Site), r)
		}
		s.res.Stack = trimStack(string(debug.Stack()))
	}
	s.mu.Unlock()
	select {
	case s.notify <- struct{}{}:
	default:
	}
}

type spinPanic int64

//go:norace
func trimStack(st string) string {
	lines := strings.Split(st, "\n")
	if len(lines) > 60 {
		lines = lines[:60]
	}
	return strings.Join(lines, "\n")
}

//go:norace
func (s *Sim) task() *Task {
	g := goid()
	s.mu.Lock()
	// (a scan instead of a map: the runtime's map functions report to the race detector on behalf of their
	// caller even from //go:norace functions)
	var t *Task
	for _, x := range s.all {
		if x.goid == g && !x.done {
			t = x
			break
		}
	}
	s.mu.Unlock()
	return t
}

// park registers the calling task as parked at site and blocks until the
// scheduler releases it.
//
//go:norace
func (s *Sim) park(t *Task, site int, selN int) grant {
	if s.aborting.Load() {
		raceEnable()
		runtime.Goexit()
	}
	s.mu.Lock()
	t.at = site
	t.selN = selN
	s.parked = append(s.parked, t)
	s.mu.Unlock()
	select {
	case s.notify <- struct{}{}:
	default:
	}
	g := <-t.resume
	if g.abort {
		raceEnable()
		runtime.Goexit()
	}
	return g
}

//go:norace
func (s *Sim) yield(site int, selN int) grant {
	t := s.task()
	if t == nil {
		return grant{}
	}
	g := s.park(t, site, selN)
	for g.stall > 0 {
		d := g.stall
		raceEnable()
		time.Sleep(d)
		raceDisable()
		g2 := s.park(t, site, 0)
		g.stall = g2.stall
	}
	return g
}

// Yield is a scheduling point: the calling task parks and continues when the
// scheduler picks it. No-op outside a simulation and for foreign goroutines.
//
//go:norace
func Yield(site int) {
	s := active.Load()
	if s == nil {
		return
	}
	raceDisable()
	s.yield(site, 0)
	raceEnable()
}

// Woke must follow every blocking operation: the goroutine that has just been
// woken parks before it touches anything, so that still only one task runs.
//
//go:norace
func Woke(site int) {
	s := active.Load()
	if s == nil {
		return
	}
	raceDisable()
	s.yield(-site-1, 0)
	raceEnable()
}

// Go starts fn as a new task (a plain goroutine outside a simulation).
//
//go:norace
func Go(site int, fn func()) {
	s := active.Load()
	if s == nil {
		go fn()
		return
	}
	raceDisable()
	t := s.task()
	raceEnable()
	if t == nil {
		go fn()
		return
	}
	raceDisable()
	s.spawn(t.ID, site, fn)
	raceEnable()
}

// Tick is inserted at loop back-edges: a deterministic detector for loops
// that never reach a synchronisation point.
//
//go:norace
func Tick() {
	s := active.Load()
	if s == nil {
		return
	}
	// (the counter is the simulator's: bumping it must not order pandora's tasks with one another in the eyes of the
	// race detector - an atomic read-modify-write is an acquire and a release, and this one runs at every loop back-edge)
	raceDisable()
	n := s.ticks.Add(1)
	raceEnable()
	if n > s.tickLimit {
		raceDisable()
		t := s.task()
		raceEnable()
		if t != nil {
			s.ticks.Store(0)
			panic(spinPanic(n))
		}
	}
}

// Sleep replaces time.Sleep in instrumented code.
//
//go:norace
func Sleep(site int, d time.Duration) {
	Yield(site)
	time.Sleep(d)
	Woke(site)
}

// OnAbort registers a function the scheduler calls when it tears the run down
// (closing simulated connections so that library goroutines can exit).
//
//go:norace
func (s *Sim) OnAbort(f func()) {
	s.mu.Lock()
	s.onAbort = append(s.onAbort, f)
	s.mu.Unlock()
}

// ---- the scheduler loop (runs on the bubble's root goroutine) ----

//go:norace
func (s *Sim) loop() {
	horizon := time.NewTimer(s.cfg.Horizon)
	defer horizon.Stop()
	var graceC <-chan time.Time
	finished := false
	for !finished {
		synctest.Wait()
		s.mu.Lock()
		crashed := s.crashed
		rootDone := s.rootDone
		n := len(s.parked)
		s.mu.Unlock()
		if crashed {
			break
		}
		if rootDone && graceC == nil {
			s.res.SimTime = time.Since(s.t0)
			s.graceT = time.NewTimer(s.cfg.Grace)
			graceC = s.graceT.C
		}
		if n == 0 {
			select {
			case <-s.notify:
				continue
			case <-graceC:
				finished = true
				continue
			case <-horizon.C:
				if !rootDone {
					s.res.Class = Hang
					s.res.Detail = fmt.Sprintf("root task not finished after %v of simulated time; blocked tasks: %s", s.cfg.Horizon, s.describeLive())
				}
				finished = true
				continue
			}
		}
		// drain a pending grace/horizon expiry without blocking
		select {
		case <-graceC:
			finished = true
			continue
		case <-horizon.C:
			if !rootDone {
				s.res.Class = Hang
				s.res.Detail = fmt.Sprintf("root task not finished after %v of simulated time (tasks still runnable): %s", s.cfg.Horizon, s.describeLive())
			}
			finished = true
			continue
		default:
		}
		if s.res.Steps >= s.cfg.MaxSteps {
			if !rootDone {
				s.res.Class = Livelock
				s.res.Detail = fmt.Sprintf("step budget %d exhausted at simulated t=%v: %s", s.cfg.MaxSteps, time.Since(s.t0), s.describeLive())
			}
			break
		}
		s.step()
	}
	if s.res.SimTime == 0 {
		s.res.SimTime = time.Since(s.t0)
	}
	s.teardown()
}

//go:norace
func (s *Sim) step() {
	s.mu.Lock()
	// order: current task first (choice 0 = no context switch), then by id
	sort.Slice(s.parked, func(i, j int) bool {
		a, b := s.parked[i], s.parked[j]
		if (a == s.cur) != (b == s.cur) {
			return a == s.cur
		}
		return a.ID < b.ID
	})
	n := len(s.parked)
	idx := s.decide(n)
	t := s.parked[idx]
	s.parked = append(s.parked[:idx], s.parked[idx+1:]...)
	if t != s.cur {
		s.res.Switches++
	}
	s.cur = t
	s.res.Steps++
	s.siteHits[t.at]++
	var g grant
	if t.selN > 1 {
		g.start = s.decideAux(t.selN, 0)
	}
	if s.cfg.Stalls && t.at >= 0 {
		if k := s.decideAux(len(stallTable)+1, 97); k > 0 {
			d := stallTable[k-1]
			if s.cfg.StallMax > 0 && d > s.cfg.StallMax {
				d = s.cfg.StallMax
			}
			g.stall = d
			s.res.Stalls++
		}
	}
	now := time.Since(s.t0)
	h := s.res.TraceHash
	now = now.Truncate(time.Microsecond) // (the simulated network places deliveries at sub-microsecond offsets that identify the stream)
	for _, v := range [...]uint64{uint64(t.ID), uint64(int64(t.at)), uint64(now), uint64(g.start), uint64(g.stall)} {
		h = (h ^ v) * 0x100000001b3
		h ^= h >> 29
	}
	s.res.TraceHash = h
	if s.cfg.TraceFull {
		s.res.Trace = append(s.res.Trace, fmt.Sprintf("%d t%d @%s now=%d n=%d sel=%d stall=%d", s.res.Steps, t.ID, SiteName(t.at), int64(now), n, g.start, int64(g.stall)))
	}
	s.mu.Unlock()
	s.ticks.Store(0)
	t.resume <- g
}

var stallTable = []time.Duration{
	time.Microsecond, 100 * time.Microsecond, time.Millisecond, 10 * time.Millisecond, 100 * time.Millisecond,
	500 * time.Millisecond, time.Second, 1900 * time.Millisecond, 2100 * time.Millisecond, 5 * time.Second,
}

// decide picks the index of the parked task to release.
//
//go:norace
func (s *Sim) decide(n int) int {
	st := s.Tape.S
	if n <= 1 {
		return 0
	}
	if st.replay {
		return st.Draw(n)
	}
	v := 0
	switch s.strategy {
	case 2: // uniform
		v = int(s.srng.next() % uint64(n))
	case 3: // PCT: highest priority runs; at change points the running task drops to the bottom
		if len(s.pctLeft) > 0 && s.res.Steps >= s.pctLeft[0] {
			s.pctLeft = s.pctLeft[1:]
			if s.cur != nil {
				s.cur.prio = len(s.pctLeft)
			}
		}
		best := 0
		for i, t := range s.parked {
			if t.prio > s.parked[best].prio {
				best = i
			}
		}
		v = best
	default: // sticky: keep the running task with probability stayNum/100
		if s.cur == nil || s.parked[0] != s.cur || int(s.srng.next()%100) >= s.stayNum {
			v = int(s.srng.next() % uint64(n))
		}
	}
	st.put(v)
	return v
}

// decideAux draws a secondary decision (select scan start, stall) that is
// recorded on the schedule tape as well. zeroBias is the percentage of zeros.
//
//go:norace
func (s *Sim) decideAux(n int, zeroBias int) int {
	st := s.Tape.S
	if n <= 1 {
		return 0
	}
	if st.replay {
		return st.Draw(n)
	}
	v := 0
	if zeroBias == 0 || int(s.srng.next()%100) >= zeroBias {
		v = int(s.srng.next() % uint64(n))
	}
	st.put(v)
	return v
}

//go:norace
func (st *Stream) put(v int) {
	st.Vals = append(st.Vals, v)
	st.pos++
}

//go:norace
func (s *Sim) describeLive() string {
	s.mu.Lock()
	defer s.mu.Unlock()
	var parts []string
	for _, t := range s.all {
		if !t.done {
			parts = append(parts, fmt.Sprintf("t%d(created %s, last at %s)", t.ID, SiteName(t.Site), SiteName(t.at)))
		}
	}
	if len(parts) > 12 {
		parts = append(parts[:12], "...")
	}
	return strings.Join(parts, " ")
}

//go:norace
func (s *Sim) teardown() {
	s.mu.Lock()
	for _, t := range s.all {
		if !t.done {
			s.res.Leaked = append(s.res.Leaked, fmt.Sprintf("%s(last at %s)", SiteName(t.Site), SiteName(t.at)))
		}
	}
	s.res.Tasks = len(s.all)
	hooks := s.onAbort
	s.mu.Unlock()
	s.aborting.Store(true)
	for _, f := range hooks {
		f()
	}
	// release everything that is or becomes parked until nothing moves any more
	for i := 0; i < 10000; i++ {
		synctest.Wait()
		s.mu.Lock()
		p := s.parked
		s.parked = nil
		s.mu.Unlock()
		if len(p) == 0 {
			break
		}
		for _, t := range p {
			t.resume <- grant{abort: true}
		}
	}
}

// SiteHits returns how often each site was the release point of a step.
//
//go:norace
func (s *Sim) SiteHits() map[int]int { return s.siteHits }

// Aborting is true while the run is torn down; shims use it to bail out.
//
//go:norace
func Aborting() bool {
	s := active.Load()
	return s != nil && s.aborting.Load()
}

// ---- site table (filled by generated code through RegisterSites) ----

var (
	siteMu    sync.Mutex
	siteNames = map[int]string{}
)

//go:norace
func RegisterSites(m map[int]string) {
	siteMu.Lock()
	for k, v := range m {
		siteNames[k] = v
	}
	siteMu.Unlock()
}

//go:norace
func SiteName(id int) string {
	woke := false
	if id < 0 {
		woke = true
		id = -id - 1
	}
	siteMu.Lock()
	n, ok := siteNames[id]
	siteMu.Unlock()
	if !ok {
		n = fmt.Sprintf("site#%d", id)
	}
	if woke {
		return "woke:" + n
	}
	return n
}

//go:norace
func AllSites() map[int]string {
	siteMu.Lock()
	defer siteMu.Unlock()
	out := make(map[int]string, len(siteNames))
	for k, v := range siteNames {
		out[k] = v
	}
	return out
}

// ---- channel helpers used by the rewriter ----

// Sender replaces `c <- v` by `simrt.Sender(site, c)(v)`: the channel and then
// the value are evaluated, then comes the scheduling point, the send and the
// post-block park.
//
//go:norace
func Sender[T any](site int, c chan<- T) func(T) {
	return func(v T) {
		if active.Load() == nil {
			c <- v
			return
		}
		Yield(site)
		c <- v
		Woke(site)
	}
}

// Recv replaces `<-c`.
//
//go:norace
func Recv[T any](site int, c <-chan T) T {
	if active.Load() == nil {
		return <-c
	}
	Yield(site)
	v := <-c
	Woke(site)
	return v
}

// Recv2 replaces `v, ok := <-c`.
//
//go:norace
func Recv2[T any](site int, c <-chan T) (T, bool) {
	if active.Load() == nil {
		v, ok := <-c
		return v, ok
	}
	Yield(site)
	v, ok := <-c
	Woke(site)
	return v, ok
}

// Close replaces close(c).
//
//go:norace
func Close[T any](site int, c chan<- T) {
	Yield(site)
	close(c)
}

// RecvCase / SendCase build the operands of a rewritten select.
//
//go:norace
func RecvCase[T any](c <-chan T) reflect.SelectCase {
	return reflect.SelectCase{Dir: reflect.SelectRecv, Chan: reflect.ValueOf(c)}
}

//go:norace
func SendCase[T any](c chan<- T) func(T) reflect.SelectCase {
	return func(v T) reflect.SelectCase {
		return reflect.SelectCase{Dir: reflect.SelectSend, Chan: reflect.ValueOf(c), Send: reflect.ValueOf(&v).Elem()}
	}
}

// As converts the received reflect.Value back to the element type of c.
//
//go:norace
func As[T any](c <-chan T, v reflect.Value) T {
	var zero T
	if !v.IsValid() {
		return zero
	}
	r, _ := v.Interface().(T)
	return r
}

// Select implements a rewritten select statement. It returns the index of
// the chosen case (len(cases) for default). Under simulation the cases are
// probed one by one starting at a tape-chosen index, so the simulator — not
// the runtime's hidden RNG — picks among simultaneously ready cases.
//
//go:norace
func Select(site int, hasDefault bool, cases ...reflect.SelectCase) (int, reflect.Value, bool) {
	s := active.Load()
	n := len(cases)
	if s == nil {
		if hasDefault {
			cs := append(append([]reflect.SelectCase(nil), cases...), reflect.SelectCase{Dir: reflect.SelectDefault})
			return reflect.Select(cs)
		}
		return reflect.Select(cases)
	}
	raceDisable()
	t := s.task()
	var g grant
	if t != nil {
		g = s.yield(site, n)
	}
	raceEnable()
	chosen, start := -1, 0
	if n > 0 {
		start = g.start % n
	}
	var rv reflect.Value
	var rok bool
	for i := 0; i < n; i++ {
		p := (start + i) % n
		if !cases[p].Chan.IsValid() || cases[p].Chan.IsNil() {
			continue
		}
		k, v, ok := reflect.Select([]reflect.SelectCase{cases[p], {Dir: reflect.SelectDefault}})
		if k == 0 {
			chosen, rv, rok = p, v, ok
			break
		}
	}
	if chosen >= 0 {
		return chosen, rv, rok
	}
	if hasDefault {
		return n, reflect.Value{}, false
	}
	if n == 0 {
		// select {} blocks forever
		select {}
	}
	k, v, ok := reflect.Select(cases)
	if t != nil {
		Woke(site)
	}
	return k, v, ok
}

const siteSleep = 1_000_301

//go:norace
func init() { RegisterSites(map[int]string{siteSleep: "time.Sleep", 0: "root"}) }

// SleepD replaces time.Sleep in instrumented code.
//
//go:norace
func SleepD(d time.Duration) { Sleep(siteSleep, d) }

// CurTask returns the id of the calling task, or -1 for a foreign goroutine.
//
//go:norace
func CurTask() int {
	s := active.Load()
	if s == nil {
		return -1
	}
	raceDisable()
	t := s.task()
	raceEnable()
	if t == nil {
		return -1
	}
	return t.ID
}

// HMutex is the mutex of the simulator's and the harness's own bookkeeping (event logs, the simulated network and disk,
// scripted peers). It excludes like a sync.Mutex, but the race detector does not see it: a lock of the harness must not
// create happens-before edges between pandora's tasks that a real run (real sockets, a real disk, no recorder) would not
// have - with visible harness locks nearly every pair of instances was ordered through some recorder, which hid races in
// pandora. The detector may then report the harness's own accesses under such a lock; the driver classifies reports
// whose accessing frame is harness code as harness bookkeeping and ignores them.
type HMutex struct{ mu sync.Mutex }

//go:norace
func (m *HMutex) Lock() { raceDisable(); m.mu.Lock(); raceEnable() }

//go:norace
func (m *HMutex) Unlock() { raceDisable(); m.mu.Unlock(); raceEnable() }

// SortedKeys returns the keys of m in ascending order (see the instrumenter's rangeMap).
func SortedKeys[M ~map[K]V, K cmp.Ordered, V any](m M) []K {
	ks := make([]K, 0, len(m))
	for k := range m {
		ks = append(ks, k)
	}
	sort.Slice(ks, func(i, j int) bool { return ks[i] < ks[j] })
	return ks
}
