package simrt

import (
	"encoding/json"
	"fmt"
)

// Tape is the only source of randomness of a simulated run. It has three
// independent streams (workload, fault plan, schedule); each stream is a
// sequence of bounded integer draws. In generation mode draws come from a
// PRNG derived from the seed and are recorded; in replay mode they come from
// the recorded list and every draw past its end is 0 ("simplest").
type Tape struct {
	Seed uint64
	W    *Stream // workload: drawn before the bubble
	F    *Stream // fault plan: drawn before the bubble
	S    *Stream // schedule: drawn only by the scheduler goroutine
}

type Stream struct {
	name   string
	rng    xoshiro
	replay bool
	Vals   []int // recorded (generation) or prescribed (replay) draws
	pos    int
	Over   int // number of draws made past the end of a replay list
}

//go:norace
func NewTape(seed uint64) *Tape {
	return &Tape{
		Seed: seed,
		W:    newStream("W", splitmix(seed, 1)),
		F:    newStream("F", splitmix(seed, 2)),
		S:    newStream("S", splitmix(seed, 3)),
	}
}

//go:norace
func newStream(name string, seed uint64) *Stream {
	s := &Stream{name: name}
	s.rng.seed(seed)
	return s
}

// TapeData is the serialised form used in replay files.
type TapeData struct {
	Seed uint64 `json:"seed"`
	W    []int  `json:"workload"`
	F    []int  `json:"faults"`
	S    []int  `json:"schedule"`
}

//go:norace
func (t *Tape) Data() TapeData {
	return TapeData{Seed: t.Seed, W: t.W.used(), F: t.F.used(), S: t.S.used()}
}

//go:norace
func (s *Stream) used() []int {
	n := s.pos
	if n > len(s.Vals) {
		n = len(s.Vals)
	}
	out := make([]int, n)
	copy(out, s.Vals[:n])
	// trailing zeros carry no information
	for len(out) > 0 && out[len(out)-1] == 0 {
		out = out[:len(out)-1]
	}
	return out
}

//go:norace
func ReplayTape(d TapeData) *Tape {
	mk := func(name string, v []int) *Stream {
		return &Stream{name: name, replay: true, Vals: append([]int(nil), v...)}
	}
	return &Tape{Seed: d.Seed, W: mk("W", d.W), F: mk("F", d.F), S: mk("S", d.S)}
}

// Draw returns a value in [0,n). n<=1 returns 0 and consumes nothing.
//
//go:norace
func (s *Stream) Draw(n int) int {
	if n <= 1 {
		return 0
	}
	if s.replay {
		v := 0
		if s.pos < len(s.Vals) {
			v = s.Vals[s.pos]
			if v < 0 {
				v = 0
			}
			if v >= n {
				v = v % n
			}
		} else {
			s.Over++
		}
		s.pos++
		return v
	}
	v := int(s.rng.next() % uint64(n))
	s.Vals = append(s.Vals, v)
	s.pos++
	return v
}

// Biased returns 0 with probability num/den, otherwise uniform in [1,n).
// What is recorded is the returned value, so replay and shrinking see plain
// decisions, not the generator's internals.
//
//go:norace
func (s *Stream) Biased(n, num, den int) int {
	if n <= 1 {
		return 0
	}
	if s.replay {
		return s.Draw(n)
	}
	v := 0
	if int(s.rng.next()%uint64(den)) >= num {
		v = 1 + int(s.rng.next()%uint64(n-1))
	}
	s.Vals = append(s.Vals, v)
	s.pos++
	return v
}

// Convenience generators over Draw.
//
//go:norace
func (s *Stream) Bool() bool { return s.Draw(2) == 1 }

//go:norace
func (s *Stream) Range(lo, hi int) int { return lo + s.Draw(hi-lo+1) } // inclusive
//go:norace
func (s *Stream) Chance(num, den int) bool {
	// true with probability num/den; 0 (= false) is the simple value
	return s.Biased(2, den-num, den) == 1
}

//go:norace
func (s *Stream) Pick(n int) int { return s.Draw(n) }

// Raw gives 64 pseudo-random bits derived deterministically from a bounded
// draw; used to seed content generators (the draw, not the bits, is recorded).
//
//go:norace
func (s *Stream) Raw() uint64 {
	v := s.Draw(1 << 30)
	return splitmix(uint64(v), 77)
}

//go:norace
func (s *Stream) Pos() int { return s.pos }

//go:norace
func (d TapeData) String() string {
	b, _ := json.Marshal(d)
	return string(b)
}

// --- PRNG: xoshiro256** seeded by splitmix64; own implementation so that no
// global state, map order or clock can leak into a run.

type xoshiro struct{ s [4]uint64 }

//go:norace
func splitmix(x uint64, k uint64) uint64 {
	x += 0x9e3779b97f4a7c15 * (k + 1)
	x = (x ^ (x >> 30)) * 0xbf58476d1ce4e5b9
	x = (x ^ (x >> 27)) * 0x94d049bb133111eb
	return x ^ (x >> 31)
}

// Split derives the seed of run i from a base seed.
//
//go:norace
func Split(base uint64, i uint64) uint64 { return splitmix(base^0x5851f42d4c957f2d, i) }

//go:norace
func (x *xoshiro) seed(s uint64) {
	for i := range x.s {
		s = splitmix(s, uint64(i))
		x.s[i] = s
	}
	if x.s[0]|x.s[1]|x.s[2]|x.s[3] == 0 {
		x.s[0] = 1
	}
}

//go:norace
func rotl(x uint64, k uint) uint64 { return (x << k) | (x >> (64 - k)) }

//go:norace
func (x *xoshiro) next() uint64 {
	r := rotl(x.s[1]*5, 7) * 9
	t := x.s[1] << 17
	x.s[2] ^= x.s[0]
	x.s[3] ^= x.s[1]
	x.s[1] ^= x.s[2]
	x.s[0] ^= x.s[3]
	x.s[2] ^= t
	x.s[3] = rotl(x.s[3], 45)
	return r
}

// Rand is a small deterministic generator for content (bodies, names) that is
// seeded from a tape draw.
type Rand struct{ x xoshiro }

//go:norace
func NewRand(seed uint64) *Rand { r := &Rand{}; r.x.seed(seed); return r }

//go:norace
func (r *Rand) Intn(n int) int {
	if n <= 0 {
		panic(fmt.Sprintf("Intn(%d)", n))
	}
	return int(r.x.next() % uint64(n))
}

//go:norace
func (r *Rand) Uint64() uint64 { return r.x.next() }

//go:norace
func (r *Rand) Float64() float64 {
	return float64(r.x.next()>>11) / float64(1<<53)
}
