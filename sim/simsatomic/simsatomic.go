// Package simsatomic replaces sync/atomic in instrumented code.
package simsatomic

import (
	"sync/atomic"

	"verifsim/simrt"
)

const site = 1_000_102

func init() { simrt.RegisterSites(map[int]string{site: "sync/atomic"}) }

type Int64 struct{ v atomic.Int64 }

func (a *Int64) Load() int64        { simrt.Yield(site); return a.v.Load() }
func (a *Int64) Store(x int64)      { simrt.Yield(site); a.v.Store(x); simrt.Yield(site) }
func (a *Int64) Add(d int64) int64  { simrt.Yield(site); r := a.v.Add(d); simrt.Yield(site); return r }
func (a *Int64) Swap(x int64) int64 { simrt.Yield(site); r := a.v.Swap(x); simrt.Yield(site); return r }
func (a *Int64) CompareAndSwap(o, n int64) bool {
	simrt.Yield(site)
	r := a.v.CompareAndSwap(o, n)
	simrt.Yield(site)
	return r
}

type Uint64 struct{ v atomic.Uint64 }

func (a *Uint64) Load() uint64   { simrt.Yield(site); return a.v.Load() }
func (a *Uint64) Store(x uint64) { simrt.Yield(site); a.v.Store(x); simrt.Yield(site) }
func (a *Uint64) Add(d uint64) uint64 {
	simrt.Yield(site)
	r := a.v.Add(d)
	simrt.Yield(site)
	return r
}
func (a *Uint64) Swap(x uint64) uint64 {
	simrt.Yield(site)
	r := a.v.Swap(x)
	simrt.Yield(site)
	return r
}
func (a *Uint64) CompareAndSwap(o, n uint64) bool {
	simrt.Yield(site)
	r := a.v.CompareAndSwap(o, n)
	simrt.Yield(site)
	return r
}

type Int32 struct{ v atomic.Int32 }

func (a *Int32) Load() int32        { simrt.Yield(site); return a.v.Load() }
func (a *Int32) Store(x int32)      { simrt.Yield(site); a.v.Store(x); simrt.Yield(site) }
func (a *Int32) Add(d int32) int32  { simrt.Yield(site); r := a.v.Add(d); simrt.Yield(site); return r }
func (a *Int32) Swap(x int32) int32 { simrt.Yield(site); r := a.v.Swap(x); simrt.Yield(site); return r }
func (a *Int32) CompareAndSwap(o, n int32) bool {
	simrt.Yield(site)
	r := a.v.CompareAndSwap(o, n)
	simrt.Yield(site)
	return r
}

type Uint32 struct{ v atomic.Uint32 }

func (a *Uint32) Load() uint32   { simrt.Yield(site); return a.v.Load() }
func (a *Uint32) Store(x uint32) { simrt.Yield(site); a.v.Store(x); simrt.Yield(site) }
func (a *Uint32) Add(d uint32) uint32 {
	simrt.Yield(site)
	r := a.v.Add(d)
	simrt.Yield(site)
	return r
}
func (a *Uint32) CompareAndSwap(o, n uint32) bool {
	simrt.Yield(site)
	r := a.v.CompareAndSwap(o, n)
	simrt.Yield(site)
	return r
}

type Bool struct{ v atomic.Bool }

func (a *Bool) Load() bool       { simrt.Yield(site); return a.v.Load() }
func (a *Bool) Store(x bool)     { simrt.Yield(site); a.v.Store(x); simrt.Yield(site) }
func (a *Bool) Swap(x bool) bool { simrt.Yield(site); r := a.v.Swap(x); simrt.Yield(site); return r }
func (a *Bool) CompareAndSwap(o, n bool) bool {
	simrt.Yield(site)
	r := a.v.CompareAndSwap(o, n)
	simrt.Yield(site)
	return r
}

type Value = atomic.Value

type Pointer[T any] struct{ v atomic.Pointer[T] }

func (a *Pointer[T]) Load() *T     { simrt.Yield(site); return a.v.Load() }
func (a *Pointer[T]) Store(x *T)   { simrt.Yield(site); a.v.Store(x); simrt.Yield(site) }
func (a *Pointer[T]) Swap(x *T) *T { simrt.Yield(site); r := a.v.Swap(x); simrt.Yield(site); return r }
func (a *Pointer[T]) CompareAndSwap(o, n *T) bool {
	simrt.Yield(site)
	r := a.v.CompareAndSwap(o, n)
	simrt.Yield(site)
	return r
}

func AddInt64(p *int64, d int64) int64 {
	simrt.Yield(site)
	r := atomic.AddInt64(p, d)
	simrt.Yield(site)
	return r
}
func AddUint64(p *uint64, d uint64) uint64 {
	simrt.Yield(site)
	r := atomic.AddUint64(p, d)
	simrt.Yield(site)
	return r
}
func AddInt32(p *int32, d int32) int32 {
	simrt.Yield(site)
	r := atomic.AddInt32(p, d)
	simrt.Yield(site)
	return r
}
func AddUint32(p *uint32, d uint32) uint32 {
	simrt.Yield(site)
	r := atomic.AddUint32(p, d)
	simrt.Yield(site)
	return r
}
func LoadInt64(p *int64) int64        { simrt.Yield(site); return atomic.LoadInt64(p) }
func LoadUint64(p *uint64) uint64     { simrt.Yield(site); return atomic.LoadUint64(p) }
func LoadInt32(p *int32) int32        { simrt.Yield(site); return atomic.LoadInt32(p) }
func LoadUint32(p *uint32) uint32     { simrt.Yield(site); return atomic.LoadUint32(p) }
func StoreInt64(p *int64, v int64)    { simrt.Yield(site); atomic.StoreInt64(p, v); simrt.Yield(site) }
func StoreUint64(p *uint64, v uint64) { simrt.Yield(site); atomic.StoreUint64(p, v); simrt.Yield(site) }
func StoreInt32(p *int32, v int32)    { simrt.Yield(site); atomic.StoreInt32(p, v); simrt.Yield(site) }
func StoreUint32(p *uint32, v uint32) { simrt.Yield(site); atomic.StoreUint32(p, v); simrt.Yield(site) }
func CompareAndSwapInt64(p *int64, o, n int64) bool {
	simrt.Yield(site)
	r := atomic.CompareAndSwapInt64(p, o, n)
	simrt.Yield(site)
	return r
}
func CompareAndSwapUint64(p *uint64, o, n uint64) bool {
	simrt.Yield(site)
	r := atomic.CompareAndSwapUint64(p, o, n)
	simrt.Yield(site)
	return r
}
func CompareAndSwapInt32(p *int32, o, n int32) bool {
	simrt.Yield(site)
	r := atomic.CompareAndSwapInt32(p, o, n)
	simrt.Yield(site)
	return r
}
func CompareAndSwapUint32(p *uint32, o, n uint32) bool {
	simrt.Yield(site)
	r := atomic.CompareAndSwapUint32(p, o, n)
	simrt.Yield(site)
	return r
}
