// Package simsig replaces os/signal.Notify in instrumented code: signals are
// delivered by the harness at simulated instants.
package simsig

import (
	"os"
	"os/signal"

	"verifsim/simrt"
)

type reg struct {
	c    chan<- os.Signal
	sigs []os.Signal
}

var (
	mu   simrt.HMutex
	regs []reg
)

// Notify registers c like signal.Notify; outside a simulation it is the real thing.
func Notify(c chan<- os.Signal, sig ...os.Signal) {
	if !simrt.Active() {
		signal.Notify(c, sig...)
		return
	}
	mu.Lock()
	regs = append(regs, reg{c, sig})
	mu.Unlock()
}

func Stop(c chan<- os.Signal) {
	if !simrt.Active() {
		signal.Stop(c)
		return
	}
	mu.Lock()
	for i := 0; i < len(regs); i++ {
		if regs[i].c == c {
			regs = append(regs[:i], regs[i+1:]...)
			i--
		}
	}
	mu.Unlock()
}

// Reset forgets all registrations (start of a run).
func Reset() { mu.Lock(); regs = nil; mu.Unlock() }

// Send delivers sig to every registered channel without blocking, as the
// runtime does; it reports how many channels took it.
func Send(sig os.Signal) int {
	mu.Lock()
	rs := append([]reg(nil), regs...)
	mu.Unlock()
	n := 0
	for _, r := range rs {
		match := len(r.sigs) == 0
		for _, s := range r.sigs {
			if s == sig {
				match = true
			}
		}
		if !match {
			continue
		}
		select {
		case r.c <- sig:
			n++
		default:
		}
	}
	return n
}
