// Package simsync replaces package sync in instrumented code. Blocking is done
// on channels, so a waiting task is durably blocked for testing/synctest and
// can be parked while holding a lock; who acquires next is a scheduler
// decision (all waiters are woken and re-compete).
package simsync

import (
	"sync"
	"sync/atomic"

	"verifsim/simrt"
)

const (
	siteLock = 1_000_001 + iota
	siteRLock
	siteUnlock
	siteOnce
	siteWG
	siteMap
	siteCond
	sitePool
)

func init() {
	simrt.RegisterSites(map[int]string{
		siteLock: "sync.Lock", siteRLock: "sync.RLock", siteUnlock: "sync.Unlock", siteOnce: "sync.Once.Do",
		siteWG: "sync.WaitGroup", siteMap: "sync.Map", siteCond: "sync.Cond", sitePool: "sync.Pool",
	})
}

type (
	Locker = sync.Locker
)

// Pool replaces sync.Pool: one shared LIFO free list instead of per-P caches that the garbage collector empties.
// Which object a Get returns is then a function of the schedule alone (replayable), and reuse is maximal, so stale
// state in a recycled object and use after Put show reliably. There is a scheduling point before Get and Put and
// one more after Put (an object published before its owner is done with it is only observable there).
// Pools are emptied at the start of every simulation (ResetPools), so a run does not depend on the runs before it.
type Pool struct {
	New func() any

	mu   sync.Mutex
	free []*poolItem
	reg  bool
}

// poolItem: the happens-before relation the race detector gets to see is the one of the real sync.Pool - a Put
// happens before the Get that returns the same object, and nothing else. The free list and its lock are the
// simulator's own and stay invisible to the detector (an earlier version used a plain mutex here: every Get and Put of
// every task was then ordered with every other, which hid races between instances that merely recycle samples).
type poolItem struct {
	x  any
	hb atomic.Int32
}

var (
	poolsMu sync.Mutex
	pools   []*Pool
)

func (p *Pool) Get() any {
	simrt.Yield(sitePool)
	if it := p.pop(); it != nil {
		it.hb.Load() // acquire: pairs with the Store of the Put that published this object
		return it.x
	}
	if p.New != nil {
		return p.New()
	}
	return nil
}

//go:norace
func (p *Pool) pop() *poolItem {
	simrt.RaceDisable()
	defer simrt.RaceEnable()
	p.mu.Lock()
	defer p.mu.Unlock()
	n := len(p.free)
	if n == 0 {
		return nil
	}
	it := p.free[n-1]
	p.free[n-1] = nil
	p.free = p.free[:n-1]
	return it
}

//go:norace
func (p *Pool) push(it *poolItem) {
	simrt.RaceDisable()
	defer simrt.RaceEnable()
	p.mu.Lock()
	defer p.mu.Unlock()
	if !p.reg {
		p.reg = true
		poolsMu.Lock()
		pools = append(pools, p)
		poolsMu.Unlock()
	}
	p.free = append(p.free, it)
}

func (p *Pool) Put(x any) {
	if x == nil {
		return
	}
	simrt.Yield(sitePool)
	it := &poolItem{x: x}
	it.hb.Store(1) // release
	p.push(it)
	simrt.Yield(sitePool)
}

// ResetPools empties every pool that has been used so far.
func ResetPools() {
	poolsMu.Lock()
	ps := pools
	pools = nil
	poolsMu.Unlock()
	for _, p := range ps {
		p.reset()
	}
}

//go:norace
func (p *Pool) reset() {
	simrt.RaceDisable()
	defer simrt.RaceEnable()
	p.mu.Lock()
	p.free = nil
	p.reg = false
	p.mu.Unlock()
}

type Mutex struct {
	mu      sync.Mutex
	locked  bool
	waiters []chan struct{}
}

func (m *Mutex) Lock() {
	simrt.Yield(siteLock)
	for {
		m.mu.Lock()
		if !m.locked {
			m.locked = true
			m.mu.Unlock()
			return
		}
		w := make(chan struct{})
		m.waiters = append(m.waiters, w)
		m.mu.Unlock()
		<-w
		simrt.Woke(siteLock)
	}
}

func (m *Mutex) TryLock() bool {
	simrt.Yield(siteLock)
	m.mu.Lock()
	defer m.mu.Unlock()
	if m.locked {
		return false
	}
	m.locked = true
	return true
}

func (m *Mutex) Unlock() {
	simrt.Yield(siteUnlock)
	m.mu.Lock()
	if !m.locked {
		m.mu.Unlock()
		panic("sync: unlock of unlocked mutex")
	}
	m.locked = false
	ws := m.waiters
	m.waiters = nil
	m.mu.Unlock()
	for _, w := range ws {
		close(w)
	}
}

// RWMutex: the bookkeeping lock is invisible to the race detector; what the detector gets to see is the relation of the
// real sync.RWMutex - an Unlock happens before every later Lock and RLock, an RUnlock happens before every later Lock,
// and readers are NOT ordered with one another (an earlier version ordered every operation on the lock with every other,
// which hid writes made under a read lock).
type RWMutex struct {
	mu      simrt.HMutex
	writer  bool
	readers int
	waiters []chan struct{}
	wrel    atomic.Int32 // stored by Unlock (release), loaded by Lock and RLock (acquire)
	rrel    atomic.Int32 // added to by RUnlock (release, merging), loaded by Lock (acquire)
}

func (m *RWMutex) wakeAll() {
	ws := m.waiters
	m.waiters = nil
	for _, w := range ws {
		close(w)
	}
}

func (m *RWMutex) Lock() {
	simrt.Yield(siteLock)
	for {
		m.mu.Lock()
		if !m.writer && m.readers == 0 {
			m.writer = true
			m.mu.Unlock()
			m.wrel.Load()
			m.rrel.Load()
			return
		}
		w := make(chan struct{})
		m.waiters = append(m.waiters, w)
		m.mu.Unlock()
		<-w
		simrt.Woke(siteLock)
	}
}

func (m *RWMutex) Unlock() {
	simrt.Yield(siteUnlock)
	m.mu.Lock()
	if !m.writer {
		m.mu.Unlock()
		panic("sync: Unlock of unlocked RWMutex")
	}
	m.writer = false
	m.wrel.Store(1)
	m.wakeAll()
	m.mu.Unlock()
}

func (m *RWMutex) RLock() {
	simrt.Yield(siteRLock)
	for {
		m.mu.Lock()
		if !m.writer {
			m.readers++
			m.mu.Unlock()
			m.wrel.Load()
			return
		}
		w := make(chan struct{})
		m.waiters = append(m.waiters, w)
		m.mu.Unlock()
		<-w
		simrt.Woke(siteRLock)
	}
}

func (m *RWMutex) RUnlock() {
	simrt.Yield(siteUnlock)
	m.mu.Lock()
	if m.readers <= 0 {
		m.mu.Unlock()
		panic("sync: RUnlock of unlocked RWMutex")
	}
	m.readers--
	m.rrel.Add(1)
	if m.readers == 0 {
		m.wakeAll()
	}
	m.mu.Unlock()
}

func (m *RWMutex) RLocker() sync.Locker { return (*rlocker)(m) }

type rlocker RWMutex

func (r *rlocker) Lock()   { (*RWMutex)(r).RLock() }
func (r *rlocker) Unlock() { (*RWMutex)(r).RUnlock() }

// Once: concurrent callers block until the first call has returned, as with
// sync.Once; a panicking f still marks the Once done.
type Once struct {
	m    Mutex
	done bool
}

func (o *Once) Do(f func()) {
	o.m.Lock()
	defer o.m.Unlock()
	if !o.done {
		defer func() { o.done = true }()
		f()
	}
}

type WaitGroup struct {
	mu      sync.Mutex
	n       int
	waiters []chan struct{}
}

func (wg *WaitGroup) Add(delta int) {
	simrt.Yield(siteWG)
	wg.mu.Lock()
	wg.n += delta
	if wg.n < 0 {
		wg.mu.Unlock()
		panic("sync: negative WaitGroup counter")
	}
	if wg.n == 0 {
		ws := wg.waiters
		wg.waiters = nil
		for _, w := range ws {
			close(w)
		}
	}
	wg.mu.Unlock()
}

func (wg *WaitGroup) Done() { wg.Add(-1) }

func (wg *WaitGroup) Wait() {
	simrt.Yield(siteWG)
	wg.mu.Lock()
	if wg.n == 0 {
		wg.mu.Unlock()
		return
	}
	w := make(chan struct{})
	wg.waiters = append(wg.waiters, w)
	wg.mu.Unlock()
	<-w
	simrt.Woke(siteWG)
}

func (wg *WaitGroup) Go(f func()) {
	wg.Add(1)
	simrt.Go(siteWG, func() {
		defer wg.Done()
		f()
	})
}

// Map wraps sync.Map with a scheduling point before each operation and another one after each storing operation
// (an entry published before the value behind it is complete is only observable there).
type Map struct{ m sync.Map }

func (m *Map) Load(k any) (any, bool)      { simrt.Yield(siteMap); return m.m.Load(k) }
func (m *Map) Store(k, v any)              { simrt.Yield(siteMap); m.m.Store(k, v); simrt.Yield(siteMap) }
func (m *Map) Delete(k any)                { simrt.Yield(siteMap); m.m.Delete(k) }
func (m *Map) Range(f func(k, v any) bool) { simrt.Yield(siteMap); m.m.Range(f) }
func (m *Map) LoadOrStore(k, v any) (any, bool) {
	simrt.Yield(siteMap)
	a, loaded := m.m.LoadOrStore(k, v)
	simrt.Yield(siteMap)
	return a, loaded
}
func (m *Map) LoadAndDelete(k any) (any, bool) {
	simrt.Yield(siteMap)
	return m.m.LoadAndDelete(k)
}
func (m *Map) Swap(k, v any) (any, bool) {
	simrt.Yield(siteMap)
	a, b := m.m.Swap(k, v)
	simrt.Yield(siteMap)
	return a, b
}
func (m *Map) CompareAndSwap(k, o, n any) bool {
	simrt.Yield(siteMap)
	ok := m.m.CompareAndSwap(k, o, n)
	simrt.Yield(siteMap)
	return ok
}
func (m *Map) CompareAndDelete(k, o any) bool {
	simrt.Yield(siteMap)
	return m.m.CompareAndDelete(k, o)
}

func OnceFunc(f func()) func() {
	var o Once
	return func() { o.Do(f) }
}

func NewCond(l sync.Locker) *sync.Cond { return sync.NewCond(l) }
