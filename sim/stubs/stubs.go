// Package stubs holds the scripted and recording components the engine-level
// harnesses plug into pandora's core interfaces. It is plain Go and goes through
// the same rewriter as pandora, so every blocking point in it is a scheduling
// point of the simulator.
package stubs

import (
	"context"
	"fmt"
	pkgerrors "github.com/pkg/errors"
	"time"

	"github.com/yandex/pandora/core"
	"github.com/yandex/pandora/core/aggregator/netsample"
	"github.com/yandex/pandora/core/coreutil"
	"github.com/yandex/pandora/core/warmup"

	"verifsim/simrt"
)

// Ev is one recorded event of a run.
type Ev struct {
	Seq  uint64
	T    time.Duration // simulated time since Log.T0
	Kind string        // acquire, acquire-end, release, shoot-in, shoot-out, report, discard, gun-new, gun-bind, gun-close, next, left, prov-run-in, prov-run-out, aggr-run-in, aggr-run-out
	Task int
	Inst int
	Ammo any
	Tok  time.Duration // token time (next)
	OK   bool
	N    int
	Err  string
	Ptr  any
	Src  string // which schedule (RecSchedule.Name)
	Pool int
	// CallSeq (next, left): the sequence stamp when the call started (Seq is taken when it returned)
	CallSeq uint64
	// CallT (next, left): the simulated time when the call started (T is taken when it returned)
	CallT time.Duration
	// AfterClose (shoot-in): the gun had been closed before this shot
	AfterClose bool
	// CtxDone (shoot-in, shoot-out): the context the gun was bound with (GunDeps.Ctx) was already done
	CtxDone bool
}

// Log is the shared event log of a run.
type Log struct {
	mu  simrt.HMutex
	T0  time.Time
	Evs []Ev
}

func NewLog() *Log { return &Log{T0: time.Now()} }

func (l *Log) Add(e Ev) {
	e.Seq = simrt.Seq()
	e.T = time.Since(l.T0)
	e.Task = simrt.CurTask()
	l.mu.Lock()
	l.Evs = append(l.Evs, e)
	l.mu.Unlock()
}

func (l *Log) Snapshot() []Ev {
	l.mu.Lock()
	defer l.mu.Unlock()
	return append([]Ev(nil), l.Evs...)
}

func (l *Log) Count(kind string) int {
	n := 0
	for _, e := range l.Snapshot() {
		if e.Kind == kind {
			n++
		}
	}
	return n
}

// ---- gun ----

// GunScript decides the behaviour of the guns of one pool.
type GunScript struct {
	// ShotDur returns how long shot number shot (0-based, per instance) of instance inst takes.
	ShotDur func(inst, shot int) time.Duration
	// NewErr: creating the k-th gun (0-based, in creation order; the warm-up gun is k=0) fails.
	NewErrAt int // -1: never
	// BindErrInst: Bind for this instance id fails.
	BindErrInst int // -1: never
	// PanicAt: instance inst panics in its k-th shot.
	PanicInst, PanicShot int // -1: never
	Closable             bool
	CloseErr             bool
	// WarmUpErr: the pool's warm-up fails.
	WarmUp    bool
	WarmUpErr bool
	// WarmUpDur: the warm-up takes this much (simulated) time and does not look at its context, like the stock gRPC gun's
	WarmUpDur time.Duration
	Report    bool // report a netsample per shot to the bound aggregator
	// ReportOnClose: a closable gun reports one more sample from Close (after CloseDur)
	ReportOnClose bool
	CloseDur      time.Duration
	// JSONSamples: report a JSON-marshalable sample (for the jsonlines aggregator) instead of a netsample
	JSONSamples bool
}

// JSONSample is what the stub gun reports to encoder aggregators.
type JSONSample struct {
	Tag string  `json:"tag"`
	N   int     `json:"n"`
	F   float64 `json:"f"`
	// Pad varies the length of the encoded line (0-300 bytes), so that buffer and chunk boundaries of the encoder
	// fall on every position of a line within a modest number of samples
	Pad string `json:"pad,omitempty"`
}

// PadFor derives the padding of sample k.
func PadFor(k int) string {
	const p = "pppppppppppppppppppppppppppppppppppppppppppppppppppppppppppppppppppppppppppppppppppppppppppppppppppppppppppppppppppp"
	n := (k*k*37 + k*11) % 301
	s := ""
	for len(s) < n {
		s += p
	}
	return s[:n]
}

func DefaultGunScript() *GunScript {
	return &GunScript{NewErrAt: -1, BindErrInst: -1, PanicInst: -1, PanicShot: -1, ShotDur: func(int, int) time.Duration { return 0 }}
}

type GunFactory struct {
	Log     *Log
	Script  *GunScript
	created int
	Guns    []*Gun
}

func (f *GunFactory) New() (core.Gun, error) {
	k := f.created
	f.created++
	if f.Script.NewErrAt == k {
		f.Log.Add(Ev{Kind: "gun-new", N: k, Err: fmt.Sprintf("injected gun factory failure #%d", k)})
		return nil, fmt.Errorf("injected gun factory failure #%d", k)
	}
	g := &Gun{f: f, idx: k, inst: -1}
	f.Guns = append(f.Guns, g)
	f.Log.Add(Ev{Kind: "gun-new", N: k, Ptr: g})
	if f.Script.Closable {
		return &ClosableGun{g}, nil
	}
	return g, nil
}

type Gun struct {
	f       *GunFactory
	idx     int
	inst    int
	aggr    core.Aggregator
	shots   int
	inShoot bool
	Overlap bool // Shoot entered while another Shoot of the same gun was in progress
	closed  int
	deps    core.GunDeps
}

func (g *Gun) Bind(aggr core.Aggregator, deps core.GunDeps) error {
	g.inst = deps.InstanceID
	g.aggr = aggr
	g.deps = deps
	if g.f.Script.BindErrInst == deps.InstanceID {
		g.f.Log.Add(Ev{Kind: "gun-bind", Inst: g.inst, Err: fmt.Sprintf("injected bind failure for instance %d", deps.InstanceID), Ptr: g})
		return fmt.Errorf("injected bind failure for instance %d", deps.InstanceID)
	}
	g.f.Log.Add(Ev{Kind: "gun-bind", Inst: g.inst, Ptr: g})
	return nil
}

// WarmUp makes every stub gun a warmup.WarmedUp; only the pool's first gun is asked.
func (g *Gun) WarmUp(opts *warmup.Options) (interface{}, error) {
	if g.f.Script.WarmUpErr {
		g.f.Log.Add(Ev{Kind: "warmup", Err: "injected warm-up failure"})
		return nil, fmt.Errorf("injected warm-up failure")
	}
	if d := g.f.Script.WarmUpDur; d > 0 {
		time.Sleep(d)
	}
	g.f.Log.Add(Ev{Kind: "warmup"})
	return nil, nil
}

func (g *Gun) Shoot(ammo core.Ammo) {
	if g.inShoot {
		g.Overlap = true
	}
	g.inShoot = true
	k := g.shots
	g.shots++
	g.f.Log.Add(Ev{Kind: "shoot-in", Inst: g.inst, Ammo: ammo, N: k, Ptr: g, CtxDone: g.deps.Ctx != nil && g.deps.Ctx.Err() != nil, AfterClose: g.closed > 0})
	if g.f.Script.PanicInst == g.inst && g.f.Script.PanicShot == k {
		g.inShoot = false
		g.f.Log.Add(Ev{Kind: "shoot-panic", Inst: g.inst, N: k, Err: fmt.Sprintf("injected shot panic inst=%d shot=%d", g.inst, k)})
		panic(fmt.Sprintf("injected shot panic inst=%d shot=%d", g.inst, k))
	}
	if d := g.f.Script.ShotDur(g.inst, k); d > 0 {
		time.Sleep(d)
	}
	if g.f.Script.Report && g.aggr != nil {
		tag := fmt.Sprintf("i%d_s%d", g.inst, k)
		if g.f.Script.JSONSamples {
			g.aggr.Report(&JSONSample{Tag: tag, N: k, Pad: PadFor(k + 7*g.inst)})
		} else {
			s := netsample.Acquire(tag)
			s.SetProtoCode(200)
			g.aggr.Report(s)
		}
	}
	g.f.Log.Add(Ev{Kind: "shoot-out", Inst: g.inst, Ammo: ammo, N: k, Ptr: g, CtxDone: g.deps.Ctx != nil && g.deps.Ctx.Err() != nil})
	g.inShoot = false
}

type ClosableGun struct{ *Gun }

func (g *ClosableGun) Close() error {
	g.closed++
	if g.f.Script.ReportOnClose && g.aggr != nil {
		// a pipelined gun: answers still in flight are awaited and reported while the gun is being closed
		if g.f.Script.CloseDur > 0 {
			time.Sleep(g.f.Script.CloseDur)
		}
		tag := fmt.Sprintf("i%d_close", g.inst)
		if g.f.Script.JSONSamples {
			g.aggr.Report(&JSONSample{Tag: tag})
		} else {
			s := netsample.Acquire(tag)
			s.SetProtoCode(200)
			g.aggr.Report(s)
		}
		g.f.Log.Add(Ev{Kind: "close-report", Inst: g.inst, Ptr: g.Gun})
	}
	g.f.Log.Add(Ev{Kind: "gun-close", Inst: g.inst, Ptr: g.Gun})
	if g.f.Script.CloseErr {
		return fmt.Errorf("injected close error")
	}
	return nil
}

// ---- recording wrappers around real components ----

type RecProvider struct {
	core.Provider
	Log *Log
}

func (p *RecProvider) Run(ctx context.Context, deps core.ProviderDeps) error {
	p.Log.Add(Ev{Kind: "prov-run-in"})
	err := p.Provider.Run(ctx, deps)
	e := Ev{Kind: "prov-run-out"}
	if err != nil {
		e.Err = err.Error()
	}
	p.Log.Add(e)
	return err
}

func (p *RecProvider) Acquire() (core.Ammo, bool) {
	a, ok := p.Provider.Acquire()
	if ok {
		p.Log.Add(Ev{Kind: "acquire", Ammo: a, OK: true})
	} else {
		p.Log.Add(Ev{Kind: "acquire-end"})
	}
	return a, ok
}

func (p *RecProvider) Release(a core.Ammo) {
	p.Log.Add(Ev{Kind: "release", Ammo: a})
	p.Provider.Release(a)
}

type RecAggregator struct {
	core.Aggregator
	Log *Log
	// Recycle: handled netsample samples go back to the sample pool (the wrapped aggregator must not keep them)
	Recycle bool
}

func (a *RecAggregator) Run(ctx context.Context, deps core.AggregatorDeps) error {
	a.Log.Add(Ev{Kind: "aggr-run-in"})
	err := a.Aggregator.Run(ctx, deps)
	e := Ev{Kind: "aggr-run-out"}
	if err != nil {
		e.Err = err.Error()
	}
	a.Log.Add(e)
	return err
}

func (a *RecAggregator) Report(s core.Sample) {
	kind := "report"
	e := Ev{Kind: kind}
	if ns, ok := s.(*netsample.Sample); ok {
		e.N = ns.ProtoCode()
		e.Err = ns.Tags()
		if ns.Tags() == netsample.DiscardedShootTag {
			e.Kind = "discard"
		}
		e.Ptr = sampleNet(ns)
	}
	a.Log.Add(e)
	a.Aggregator.Report(s)
	if a.Recycle {
		if ns, ok := s.(*netsample.Sample); ok {
			// what the phout aggregator does with a handled sample: back to the pool, for the next gun to take
			netsample.VerifRelease(ns)
		}
	}
}

// sampleNet extracts the net code through the exported String()/fields we have access to.
func sampleNet(s *netsample.Sample) int { return netCode(s) }

// RecSchedule records every token handed out together with the pick-up instant.
type RecSchedule struct {
	core.Schedule
	Log  *Log
	Name string
}

func (s *RecSchedule) Next() (time.Time, bool) {
	c, ct := simrt.Seq(), time.Since(s.Log.T0)
	t, ok := s.Schedule.Next()
	s.Log.Add(Ev{Kind: "next", Tok: t.Sub(s.Log.T0), OK: ok, Src: s.Name, CallSeq: c, CallT: ct})
	return t, ok
}

func (s *RecSchedule) Left() int {
	c, ct := simrt.Seq(), time.Since(s.Log.T0)
	n := s.Schedule.Left()
	s.Log.Add(Ev{Kind: "left", N: n, Src: s.Name, CallSeq: c, CallT: ct})
	return n
}

// ---- scripted provider / aggregator ----

// ScriptProvider hands out Items numbered ammo and then ends; it can fail.
type ScriptProvider struct {
	Log      *Log
	Items    int  // number of items; <0: unlimited until cancelled
	ErrAt    int  // Run returns an error after this many items were handed out (-1: never)
	ErrEnd   bool // Run returns an error when it ends normally (after the last item)
	CtxKind  bool // the injected error is the component's own timeout: its cause is context.DeadlineExceeded
	Block    bool // after the items, block until cancelled instead of closing
	QueueLen int
	sink     chan core.Ammo
	RunDone  bool
}

type ProviderError struct{ Msg string }

func (e *ProviderError) Error() string { return e.Msg }

func (p *ScriptProvider) fail(msg string) error {
	if p.CtxKind {
		return pkgerrors.WithMessage(context.DeadlineExceeded, msg+": own timeout")
	}
	return &ProviderError{msg}
}

func NewScriptProvider(l *Log, items int) *ScriptProvider {
	return &ScriptProvider{Log: l, Items: items, ErrAt: -1, sink: make(chan core.Ammo, 1)}
}

func (p *ScriptProvider) Run(ctx context.Context, _ core.ProviderDeps) (err error) {
	p.Log.Add(Ev{Kind: "prov-run-in"})
	defer func() {
		p.RunDone = true
		e := Ev{Kind: "prov-run-out"}
		if err != nil {
			e.Err = err.Error()
		}
		p.Log.Add(e)
	}()
	defer close(p.sink)
	for i := 0; p.Items < 0 || i < p.Items; i++ {
		if p.ErrAt == i {
			return p.fail(fmt.Sprintf("injected provider failure at item %d", i))
		}
		select {
		case p.sink <- i:
		case <-ctx.Done():
			return ctx.Err()
		}
	}
	if p.ErrAt >= 0 && p.ErrAt >= p.Items && p.Items >= 0 {
		return p.fail(fmt.Sprintf("injected provider failure at the end (%d items)", p.Items))
	}
	if p.Block {
		<-ctx.Done()
		return ctx.Err()
	}
	return nil
}

func (p *ScriptProvider) Acquire() (core.Ammo, bool) {
	a, ok := <-p.sink
	if ok {
		p.Log.Add(Ev{Kind: "acquire", Ammo: a, OK: true})
	} else {
		p.Log.Add(Ev{Kind: "acquire-end"})
	}
	return a, ok
}

func (p *ScriptProvider) Release(a core.Ammo) { p.Log.Add(Ev{Kind: "release", Ammo: a}) }

// ScriptAggregator consumes samples through a queue like the real ones and can fail.
type ScriptAggregator struct {
	Log      *Log
	OpenErr  bool // Run fails at once
	ErrAt    int  // Run fails after consuming this many samples (-1 never)
	DropErr  bool // Run ends with a "N samples were dropped"-style error after cancel
	CtxKind  bool // the injected error is the component's own timeout: its cause is context.DeadlineExceeded
	Blocking bool // Report blocks when the queue is full (phout style) instead of dropping
	queue    chan core.Sample
	Got      int
	RunDone  bool
}

type AggregatorError struct{ Msg string }

func (e *AggregatorError) Error() string { return e.Msg }

func (a *ScriptAggregator) fail(msg string) error {
	if a.CtxKind {
		return pkgerrors.WithMessage(context.DeadlineExceeded, msg+": own timeout")
	}
	return &AggregatorError{msg}
}

func NewScriptAggregator(l *Log, qlen int) *ScriptAggregator {
	return &ScriptAggregator{Log: l, ErrAt: -1, queue: make(chan core.Sample, qlen)}
}

func (a *ScriptAggregator) Run(ctx context.Context, _ core.AggregatorDeps) (err error) {
	a.Log.Add(Ev{Kind: "aggr-run-in"})
	defer func() {
		a.RunDone = true
		e := Ev{Kind: "aggr-run-out"}
		if err != nil {
			e.Err = err.Error()
		}
		a.Log.Add(e)
	}()
	if a.OpenErr {
		return a.fail("injected aggregator open failure")
	}
	for {
		if a.ErrAt >= 0 && a.Got >= a.ErrAt {
			return a.fail(fmt.Sprintf("injected aggregator failure after %d samples", a.Got))
		}
		select {
		case s := <-a.queue:
			a.Got++
			coreutil.ReturnSampleIfBorrowed(s)
		case <-ctx.Done():
			// drain what is queued, like the real aggregators
			for {
				select {
				case s := <-a.queue:
					a.Got++
					coreutil.ReturnSampleIfBorrowed(s)
				default:
					if a.DropErr {
						return a.fail("7 samples were dropped (injected)")
					}
					return nil
				}
			}
		}
	}
}

func (a *ScriptAggregator) Report(s core.Sample) {
	e := Ev{Kind: "report"}
	if ns, ok := s.(*netsample.Sample); ok {
		e.Err = ns.Tags()
		if ns.Tags() == netsample.DiscardedShootTag {
			e.Kind = "discard"
		}
		e.Ptr = netCode(ns)
	}
	a.Log.Add(e)
	if a.Blocking {
		a.queue <- s
		return
	}
	select {
	case a.queue <- s:
	default:
		coreutil.ReturnSampleIfBorrowed(s)
	}
}

func netCode(s *netsample.Sample) int { return netsample.VerifNetCode(s) }
