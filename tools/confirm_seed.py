#!/usr/bin/env python3
"""Confirm a seeded change delivered by a sub-agent, in a scratch worktree of /repo's HEAD:
the patch applies, the module builds, the existing suite passes with it (known flaky tests
excepted), the demonstration fails with it and passes without it. On success the change is
stored as /verif/seeded/<name>/{patch.diff, demo file, meta.json}. Usage:
  confirm_seed.py <delivery dir> <name>
"""
import json, os, re, shutil, subprocess, sys, tempfile

ENV = dict(os.environ, GOFLAGS="-mod=mod", GOPROXY="off", GOSUMDB="off", GOTOOLCHAIN="local")
FLAKY = {"TestHTTPScenarioSuite", "TestHTTPScenarioSuite/Test_Http_Check_Passes", "TestHTTPScenarioSuite/Test_Http_Check_Passes/base", "TestGunSuite", "TestGunSuite/Test_SuccessScenario", "TestProvider_runPreloaded", "TestProvider_runPreloaded/context_deadline_exceeded", "Test_Instance", "Test_Instance/context_canceled_after_run_/_start_fail", "Test_InstancePool/aggregator_failed", "Test_InstancePool", "TestEncoderAggregator_AutoFlush", "Test_Engine/one_pool_failed", "Test_Engine", "TestWaiter_ContextCanceledDuringWait"}

def sh(cmd, cwd, timeout=1800):
    p = subprocess.run(cmd, cwd=cwd, env=ENV, shell=True, stdout=subprocess.PIPE, stderr=subprocess.STDOUT, text=True, timeout=timeout)
    return p.returncode, p.stdout

def main():
    src, name = sys.argv[1], sys.argv[2]
    meta = json.load(open(os.path.join(src, "meta.json")))
    demo = meta.get("demo", {})
    copy_to = re.split(r"[ (]", demo.get("copy_to", "").strip())[0].rstrip("/")
    run = demo.get("run")
    demo_file = demo.get("file", "demo_test.go")
    wt = tempfile.mkdtemp(prefix="seedconf-", dir="/tmp")
    os.rmdir(wt)
    rc, out = sh(f"git -C /repo worktree add --detach {wt} HEAD", "/")
    if rc: print(out); sys.exit(2)
    res = {"applies": False}
    try:
        rc, out = sh(f"git apply --check {src}/patch.diff && git apply {src}/patch.diff", wt)
        res["applies"] = rc == 0
        if rc:
            print("PATCH DOES NOT APPLY on current HEAD:\n", out)
            # try with 3-way / fuzz
            rc, out = sh(f"git apply -3 {src}/patch.diff || patch -p1 --fuzz=3 < {src}/patch.diff", wt)
            res["applies_fuzzy"] = rc == 0
            if rc:
                print(out); return finish(res, wt, src, name, meta, False)
        rc, out = sh("go build ./...", wt)
        res["builds"] = rc == 0
        if rc: print(out); return finish(res, wt, src, name, meta, False)
        # full suite in a private network namespace (fixed ports in tests/acceptance)
        rc, out = sh("unshare -rn sh -c 'ip link set lo up; go test -vet=off -count=1 -timeout 25m ./... 2>&1'", wt)
        fails = set(re.findall(r"^\s*--- FAIL: (\S+)", out, re.M))
        bad = sorted(f for f in fails if f not in FLAKY)
        pkgfail = re.findall(r"^FAIL\s+(\S+)", out, re.M)
        res["suite_failures"] = sorted(fails)
        res["suite_passes_with_change"] = not bad and not any("build failed" in l for l in out.splitlines())
        if bad:
            print("SUITE FAILS WITH CHANGE:", bad, pkgfail)
        # demo with change
        shutil.copy(os.path.join(src, demo_file), os.path.join(wt, copy_to, demo_file))
        rcs = []
        for i in range(2):
            rc, out = sh("unshare -rn sh -c 'ip link set lo up; " + run.replace("'", "'\\''") + " 2>&1'", wt, 600)
            rcs.append(rc)
        res["demo_fails_with_change"] = all(r != 0 for r in rcs)
        res["demo_with_change_tail"] = out[-1500:]
        sh("git checkout -- .", wt)
        rcs = []
        for i in range(2):
            rc, out = sh("unshare -rn sh -c 'ip link set lo up; " + run.replace("'", "'\\''") + " 2>&1'", wt, 600)
            rcs.append(rc)
        res["demo_passes_without_change"] = all(r == 0 for r in rcs)
        if not res["demo_passes_without_change"]:
            res["demo_without_change_tail"] = out[-1500:]
        ok = res["suite_passes_with_change"] and res["demo_fails_with_change"] and res["demo_passes_without_change"]
        return finish(res, wt, src, name, meta, ok, copy_to, demo_file)
    finally:
        sh(f"git -C /repo worktree remove --force {wt}", "/")

def finish(res, wt, src, name, meta, ok, copy_to=None, demo_file=None):
    print(json.dumps({k: v for k, v in res.items() if not k.endswith("_tail")}, indent=1))
    if not ok:
        print("NOT CONFIRMED:", name)
        for k in res:
            if k.endswith("_tail"): print(k, ":\n", res[k])
        return
    dst = os.path.join("/verif/seeded", name)
    os.makedirs(dst, exist_ok=True)
    shutil.copy(os.path.join(src, "patch.diff"), dst)
    shutil.copy(os.path.join(src, demo_file), dst)
    head = subprocess.run("git -C /repo rev-parse --short HEAD", shell=True, stdout=subprocess.PIPE, text=True).stdout.strip()
    meta_out = {
        "property": meta.get("property"), "title": meta.get("title"), "files_touched": meta.get("files_touched"),
        "what_it_breaks": meta.get("what_it_breaks"), "needs_to_manifest": meta.get("needs_to_manifest"),
        "demo": {"copy_to": copy_to, "file": demo_file, "run": meta["demo"]["run"]},
        "author": "independent sub-agent given only the property record and a scratch worktree",
        "confirmed": dict({k: v for k, v in res.items() if not k.endswith("_tail")}, on_repo_commit=head,
                          how="tools/confirm_seed.py: scratch worktree of /repo HEAD; git apply; go build ./...; full suite in a private netns; demo x2 with the change (must fail), x2 without (must pass)"),
        "detected_by": None,
    }
    json.dump(meta_out, open(os.path.join(dst, "meta.json"), "w"), indent=1)
    print("CONFIRMED ->", dst)

main()
