#!/bin/sh
# Statement coverage of pandora's non-test sources under the simulated workloads (a reach measure, not a check).
# usage: coverage.sh [runs per property (default 300)] [properties...]
# The cover tool does not follow overlay-added files, so the overlay is applied physically to scratch copies of /repo and
# of the harness module; everything lives under one mktemp directory that is removed at the end.
# Output: /verif/reach/coverage.txt (per-function list of unreached code, total) - informational.
set -e
export GOFLAGS=-mod=mod GOPROXY=off GOSUMDB=off GOTOOLCHAIN=local
runs=${1:-300}; [ $# -gt 0 ] && shift
props=${*:-C01 C02 C03 C04 C05 C06 C07 C08 C09 C10 C12 C13 C14 C15 C19 C20}
S=$(mktemp -d /tmp/vcov.XXXXXX)
trap 'rm -rf "$S"' EXIT
mkdir -p $S/ov
/verif/bin/instr -out $S/ov -sim /verif/sim -add /verif/sim/_overlay_add >/dev/null
rsync -a --exclude .git /repo/ $S/repo/
rsync -a /verif/sim/ $S/sim/
python3 - "$S" <<'EOF'
import json, os, shutil, sys
S = sys.argv[1]
ov = json.load(open(S + '/ov/overlay.json'))['Replace']
n = 0
for dst, src in ov.items():
    if dst.startswith('/repo/'):
        t = S + '/repo/' + dst[len('/repo/'):]
    elif dst.startswith('/verif/sim/'):
        t = S + '/sim/' + dst[len('/verif/sim/'):]
    else:
        print('overlay entry outside the two trees, skipped:', dst); continue
    if src == '':
        if os.path.exists(t): os.remove(t)
        continue
    os.makedirs(os.path.dirname(t), exist_ok=True)
    shutil.copyfile(src, t); n += 1
print('overlay applied physically:', n, 'files')
EOF
sed -i "s#=> /repo#=> $S/repo#" $S/sim/go.mod
cd $S/sim
go1.26.8 test -c -vet=off -cover -coverpkg=github.com/yandex/pandora/... -o $S/sim.test ./props
cd $S/sim/props
for p in $props; do
  ( GOMAXPROCS=2 $S/sim.test -test.run '^TestWorker$' -test.timeout 0 -sites $S/ov/sites.json -prop $p -tier quick -base 20260929 -from 0 -count $runs -out $S/out.$p -test.coverprofile $S/cover.$p >/dev/null 2>$S/err.$p || echo "worker $p exit $?" ) &
done
wait
cd $S/repo
{ echo "mode: set"; cat $S/cover.C* | grep -v '^mode:' | grep -v '_test.go' | grep -v '/sim_' ; } > $S/cover.all
go1.26.8 tool cover -func=$S/cover.all > $S/func.txt 2>$S/func.err || { cat $S/func.err | head; }
mkdir -p /verif/reach
{ echo "# statement coverage of pandora under the quick-tier workloads, $runs runs per property ($props)"; tail -1 $S/func.txt; echo "# functions below 100 %, lowest first"; grep -v '100.0%' $S/func.txt | grep -v '^total' | sed "s#github.com/yandex/pandora/##" | awk '{print $NF, $1, $2}' | sort -n ; } > /verif/reach/coverage.txt
python3 - "$S" <<'EOF2'
# uncovered blocks of the files the properties are anchored in, with their first source line
import json, sys, collections
S = sys.argv[1]
anch = set()
for l in open('/verif/properties.jsonl'):
    anch.update(json.loads(l)['anchors']['files'])
cov = collections.defaultdict(int)
for l in open(S + '/cover.all'):
    if l.startswith('mode:'): continue
    blk, n, c = l.rsplit(' ', 2)
    cov[blk] |= int(c) > 0
out = []
for blk, c in sorted(cov.items()):
    if c: continue
    f, rng = blk.split(':')
    rel = f.replace('github.com/yandex/pandora/', '')
    if rel not in anch: continue
    a = rng.split(',')[0].split('.')
    try:
        src = open(S + '/repo/' + rel).read().split('\n')
        line = src[int(a[0]) - 1].strip()
        nxt = src[int(a[0])].strip() if int(a[0]) < len(src) else ''
    except Exception:
        line = nxt = '?'
    out.append('%s:%s  %s | %s' % (rel, rng, line[:90], nxt[:70]))
open('/verif/reach/uncovered_anchor_blocks.txt', 'w').write('# blocks of anchored files no quick-tier run reached (line numbers are those of the instrumented copy)\n' + '\n'.join(out) + '\n')
print(len(out), 'uncovered blocks in anchored files')
EOF2
tail -1 $S/func.txt
