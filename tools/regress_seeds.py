#!/usr/bin/env python3
"""Re-run every kept seeded change against the check(s) recorded in its meta.json (detected_by) and report
which are still detected at the quick budget. Usage: regress_seeds.py [name-prefix ...]
Each change is applied to a scratch worktree of /repo HEAD (never to /repo itself)."""
import json, os, re, subprocess, sys, tempfile
ENV = dict(os.environ, GOFLAGS="-mod=mod", GOPROXY="off", GOSUMDB="off", GOTOOLCHAIN="local")
def sh(cmd, **kw):
    return subprocess.run(cmd, shell=True, env=ENV, stdout=subprocess.PIPE, stderr=subprocess.STDOUT, text=True, **kw)
def main():
    names = sorted(os.listdir("/verif/seeded"))
    if len(sys.argv) > 1:
        names = [n for n in names if any(n.startswith(p) for p in sys.argv[1:])]
    bad = []
    for n in names:
        meta = json.load(open(f"/verif/seeded/{n}/meta.json"))
        db = meta.get("detected_by")
        if not db or (isinstance(db, dict) and (db.get("superseded") or db.get("missed") or not db.get("check"))) or "superseded" in json.dumps(db):
            print(f"{n}: skipped (no detecting check recorded / superseded / recorded miss)"); continue
        checks = re.findall(r"\b(C\d\d)\b(?: \(?(?:quick|thorough))?", db.get("check", "") if isinstance(db, dict) else str(db))
        checks = list(dict.fromkeys(checks)) or [meta["property"]]
        wt = tempfile.mkdtemp(prefix="regress.", dir="/tmp"); os.rmdir(wt)
        if sh(f"git -C /repo worktree add --detach {wt} HEAD").returncode != 0:
            print(f"{n}: worktree failed"); continue
        try:
            if sh(f"git apply /verif/seeded/{n}/patch.diff", cwd=wt).returncode != 0:
                print(f"{n}: PATCH DOES NOT APPLY to HEAD"); bad.append(n); continue
            hit = []
            for c in checks:
                out = sh(f"/verif/bin/vcheck -prop {c} -tier quick -repo {wt}").stdout
                m = re.search(r"(\d+) new violation", out)
                if m and int(m.group(1)) > 0:
                    hit.append(c); break
            if hit:
                print(f"{n}: detected by {hit[0]}")
            else:
                print(f"{n}: NOT DETECTED by {checks}"); bad.append(n)
        finally:
            sh(f"git -C /repo worktree remove --force {wt}")
        sys.stdout.flush()
    sh("rm -f /verif/replays/*.json")
    print("regress-done; attention:", bad)
main()
