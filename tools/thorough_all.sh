#!/bin/sh
# usage: thorough_all.sh <budget per property, e.g. 8m> [seed]   (run from a /verif checkout; builds its own bin/)
export GOFLAGS=-mod=mod GOPROXY=off GOSUMDB=off GOTOOLCHAIN=local
B=${1:-8m}
[ -n "$2" ] && export VERIF_SEED=$2
./setup.sh >/dev/null 2>&1 || exit 2
for p in C01 C02 C03 C04 C05 C06 C07 C08 C09 C10 C11 C12 C13 C14 C15 C19 C20; do
  ./bin/vcheck -prop $p -tier thorough -budget $B 2>&1 | grep -E -A15 "^vcheck: C|VIOLATION|KNOWN|trouble|did not replay" | cut -c1-600
done
echo thorough-all-done
