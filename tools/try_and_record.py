#!/usr/bin/env python3
"""usage: try_and_record.py <seed name> <property> [<property> ...]
Runs tools/try_seed.sh for the kept seeded change against each property's quick check (scratch worktree, never /repo),
prints one line per check and records the first detecting check and its signatures in seeded/<name>/meta.json."""
import json, re, subprocess, sys
name, props = sys.argv[1], sys.argv[2:]
mp = f"/verif/seeded/{name}/meta.json"
meta = json.load(open(mp))
found = None
for p in props:
    out = subprocess.run(["sh", "/verif/tools/try_seed.sh", name, p], stdout=subprocess.PIPE, stderr=subprocess.STDOUT, text=True).stdout
    sigs = sorted(set(re.findall(r"^vcheck: (C\d\d/[^:]+): ", out, re.M)))
    summ = re.findall(r"^vcheck: C\d\d quick:.*$", out, re.M)
    trouble = "trouble" in out
    print(f"{name} vs {p}: {len(sigs)} signature(s){' TROUBLE' if trouble else ''}; {', '.join(s.split('/',1)[1] for s in sigs[:4])}{' ...' if len(sigs)>4 else ''} | {summ[-1][8:] if summ else out[-300:]}")
    if sigs and not found:
        found = (p, sigs)
if found:
    short = sorted(set("/".join(s.split("/")[1:3]) for s in found[1]))
    meta["detected_by"] = {"check": f"{found[0]} quick", "signature": ", ".join(short[:6])}
    json.dump(meta, open(mp, "w"), indent=1)
subprocess.run("rm -f /verif/replays/*.json", shell=True)
