#!/bin/sh
# usage: try_seed.sh <seed name> <property> [extra vcheck args]
# applies /verif/seeded/<name>/patch.diff to a scratch worktree of /repo HEAD and runs the property's quick check against it.
name=$1; prop=$2; shift 2
wt=$(mktemp -d /tmp/tryseed.XXXXXX); rmdir $wt
git -C /repo worktree add --detach $wt HEAD >/dev/null 2>&1 || exit 2
( cd $wt && git apply /verif/seeded/$name/patch.diff ) || { echo "patch does not apply"; git -C /repo worktree remove --force $wt; exit 2; }
/verif/bin/vcheck -prop $prop -tier quick -repo $wt "$@" 2>&1 | grep -a -v conda | grep -a -E "VIOLATION|KNOWN|vcheck: C|trouble" | cut -c1-400
rc=$?
git -C /repo worktree remove --force $wt
